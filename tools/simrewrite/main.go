// simrewrite instruments a scratch copy of a Go module for the simulator:
//
//   - the operand X of every `range X` whose type is a map becomes
//     simrt.MapSeq(X, site)  (map-iteration-order seam, S1);
//   - simrt.Tick(site) is inserted at every function entry and loop body
//     (step budget and pre-emption points, S4);
//   - every package gets a generated file registering its package-level
//     variables with simrt (roots for the snapshot oracle).
//
// All edits are same-line text splices, so line numbers in panics and race
// reports still refer to the original sources. The tool is type-driven: it
// instruments whatever the tree contains when it runs.
//
// Usage: simrewrite -dir <module root> -sites <out.json> [-ticks] [-vars] [-lint] ./...
//
// With -lint nothing is rewritten: the exit status is 1 if any range over a
// map exists (used on the harness itself, which must not depend on map order).
package main

import (
	"encoding/json"
	"flag"
	"fmt"
	"go/ast"
	"go/token"
	"go/types"
	"os"
	"path/filepath"
	"sort"
	"strings"

	"golang.org/x/tools/go/packages"
)

type Site struct {
	ID   int    `json:"id"`
	Kind string `json:"kind"` // "maprange" | "tick"
	Pos  string `json:"pos"`
	Func string `json:"func,omitempty"`
	Map  string `json:"map,omitempty"`
}

type splice struct {
	off  int
	end  int // == off for pure insertion
	text string
}

func main() {
	dir := flag.String("dir", ".", "module root")
	sitesOut := flag.String("sites", "", "write site table (JSON)")
	ticks := flag.Bool("ticks", false, "insert simrt.Tick")
	vars := flag.Bool("vars", false, "generate package-variable registration files")
	lint := flag.Bool("lint", false, "report map ranges, rewrite nothing")
	base := flag.Int("base", 0, "first site id")
	tag := flag.String("tag", "verif", "build tag for generated files")
	flag.Parse()
	patterns := flag.Args()
	if len(patterns) == 0 {
		patterns = []string{"./..."}
	}

	cfg := &packages.Config{
		Mode: packages.NeedName | packages.NeedFiles | packages.NeedCompiledGoFiles | packages.NeedImports |
			packages.NeedDeps | packages.NeedTypes | packages.NeedSyntax | packages.NeedTypesInfo | packages.NeedModule,
		Dir:   *dir,
		Tests: false,
	}
	pkgs, err := packages.Load(cfg, patterns...)
	if err != nil {
		fmt.Fprintln(os.Stderr, "simrewrite: load:", err)
		os.Exit(2)
	}
	sort.Slice(pkgs, func(i, j int) bool { return pkgs[i].PkgPath < pkgs[j].PkgPath })
	bad := false
	for _, p := range pkgs {
		for _, e := range p.Errors {
			fmt.Fprintln(os.Stderr, "simrewrite:", p.PkgPath, e)
			bad = true
		}
	}
	if bad {
		os.Exit(2)
	}

	var sites []Site
	next := *base
	absDir, _ := filepath.Abs(*dir)
	nMap := 0

	for _, p := range pkgs {
		if p.Name == "main" && !*lint {
			continue // tools/ etc.
		}
		for i, f := range p.Syntax {
			fname := p.CompiledGoFiles[i]
			if strings.HasSuffix(fname, "_test.go") || !strings.HasPrefix(fname, absDir) {
				continue
			}
			rel, _ := filepath.Rel(absDir, fname)
			var sp []splice
			needImport := false
			// enclosing function names
			var stack []string
			var walk func(n ast.Node) bool
			funcName := func() string {
				if len(stack) == 0 {
					return ""
				}
				return stack[len(stack)-1]
			}
			tick := func(lbrace token.Pos) {
				if !*ticks || !lbrace.IsValid() {
					return
				}
				off := p.Fset.Position(lbrace).Offset + 1
				id := next
				next++
				sites = append(sites, Site{ID: id, Kind: "tick", Pos: fmt.Sprintf("%s:%d", rel, p.Fset.Position(lbrace).Line), Func: funcName()})
				sp = append(sp, splice{off: off, end: off, text: fmt.Sprintf("simrt.Tick(%d);", id)})
				needImport = true
			}
			walk = func(n ast.Node) bool {
				switch x := n.(type) {
				case *ast.FuncDecl:
					name := x.Name.Name
					if x.Recv != nil && len(x.Recv.List) > 0 {
						name = types.ExprString(x.Recv.List[0].Type) + "." + name
					}
					stack = append(stack, p.Name+"."+name)
					if x.Body != nil {
						tick(x.Body.Lbrace)
						ast.Inspect(x.Body, walk)
					}
					stack = stack[:len(stack)-1]
					return false
				case *ast.FuncLit:
					tick(x.Body.Lbrace)
				case *ast.ForStmt:
					tick(x.Body.Lbrace)
				case *ast.RangeStmt:
					tick(x.Body.Lbrace)
					tv, ok := p.TypesInfo.Types[x.X]
					if !ok {
						break
					}
					if _, isMap := tv.Type.Underlying().(*types.Map); !isMap {
						// a type parameter constrained to maps also counts
						if tp, isTP := tv.Type.(*types.TypeParam); isTP {
							if _, isMap2 := coreMap(tp); !isMap2 {
								break
							}
						} else {
							break
						}
					}
					nMap++
					id := next
					next++
					pos := p.Fset.Position(x.X.Pos())
					sites = append(sites, Site{ID: id, Kind: "maprange", Pos: fmt.Sprintf("%s:%d", rel, pos.Line), Func: funcName(), Map: types.ExprString(x.X)})
					if *lint {
						// a range whose line carries "maporder:ok" collects keys that are
						// sorted (or summed commutatively) before use
						if lineHas(fname, pos.Line, "maporder:ok") {
							nMap--
							break
						}
						fmt.Printf("%s:%d: range over map %s\n", rel, pos.Line, types.ExprString(x.X))
						break
					}
					s := p.Fset.Position(x.X.Pos()).Offset
					e := p.Fset.Position(x.X.End()).Offset
					sp = append(sp, splice{off: s, end: s, text: "simrt.MapSeq("})
					sp = append(sp, splice{off: e, end: e, text: fmt.Sprintf(", %d)", id)})
					needImport = true
				}
				return true
			}
			ast.Inspect(f, walk)
			if *lint || len(sp) == 0 {
				continue
			}
			src, err := os.ReadFile(fname)
			if err != nil {
				fatal(err)
			}
			if needImport {
				// add the import right after the package clause, on the same line
				off := p.Fset.Position(f.Name.End()).Offset
				sp = append(sp, splice{off: off, end: off, text: `; import simrt "simrt"`})
			}
			sort.SliceStable(sp, func(i, j int) bool { return sp[i].off < sp[j].off })
			var out []byte
			last := 0
			for _, s := range sp {
				out = append(out, src[last:s.off]...)
				out = append(out, s.text...)
				last = s.end
			}
			out = append(out, src[last:]...)
			// range-over-func needs language version go1.23: the check script
			// bumps the `go` directive of the scratch go.mod (no line shift).
			if err := os.WriteFile(fname, out, 0o644); err != nil {
				fatal(err)
			}
		}
		if *vars && !*lint && len(p.GoFiles) > 0 && strings.HasPrefix(p.GoFiles[0], absDir) {
			var names []string
			scope := p.Types.Scope()
			for _, n := range scope.Names() {
				if v, ok := scope.Lookup(n).(*types.Var); ok && !v.IsField() && n != "_" {
					names = append(names, n)
				}
			}
			sort.Strings(names)
			var b strings.Builder
			fmt.Fprintf(&b, "//go:build %s\n\npackage %s\n\nimport simrt \"simrt\"\n\nfunc init() {\n", *tag, p.Name)
			for _, n := range names {
				fmt.Fprintf(&b, "\tsimrt.RegisterPkgVar(%q, &%s)\n", p.PkgPath+"."+n, n)
			}
			fmt.Fprintf(&b, "}\n")
			if len(names) > 0 {
				dirp := filepath.Dir(p.GoFiles[0])
				if err := os.WriteFile(filepath.Join(dirp, "zz_simvars_verif.go"), []byte(b.String()), 0o644); err != nil {
					fatal(err)
				}
			}
		}
	}
	if *sitesOut != "" {
		b, _ := json.MarshalIndent(sites, "", " ")
		if err := os.WriteFile(*sitesOut, b, 0o644); err != nil {
			fatal(err)
		}
	}
	if *lint {
		if nMap > 0 {
			fmt.Fprintf(os.Stderr, "simrewrite: %d range-over-map statements\n", nMap)
			os.Exit(1)
		}
		return
	}
	fmt.Fprintf(os.Stderr, "simrewrite: %d map-range sites, %d sites total\n", nMap, len(sites))
}

var fileLines = map[string][]string{}

func lineHas(fname string, line int, marker string) bool {
	ls, ok := fileLines[fname]
	if !ok {
		b, _ := os.ReadFile(fname)
		ls = strings.Split(string(b), "\n")
		fileLines[fname] = ls
	}
	return line-1 < len(ls) && strings.Contains(ls[line-1], marker)
}

func coreMap(tp *types.TypeParam) (*types.Map, bool) {
	iface, ok := tp.Constraint().Underlying().(*types.Interface)
	if !ok {
		return nil, false
	}
	var m *types.Map
	all := true
	for i := 0; i < iface.NumEmbeddeds(); i++ {
		switch t := iface.EmbeddedType(i).(type) {
		case *types.Union:
			for j := 0; j < t.Len(); j++ {
				if mm, ok := t.Term(j).Type().Underlying().(*types.Map); ok {
					m = mm
				} else {
					all = false
				}
			}
		default:
			if mm, ok := t.Underlying().(*types.Map); ok {
				m = mm
			} else {
				all = false
			}
		}
	}
	return m, m != nil && all
}

func fatal(err error) {
	fmt.Fprintln(os.Stderr, "simrewrite:", err)
	os.Exit(2)
}
