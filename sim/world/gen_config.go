package world

import (
	"encoding/json"
	"fmt"
	"strings"
)

// ---------------------------------------------------------------------------
// expressions

func (g *Gen) str() string {
	s := g.pick([]string{"x", "hello", "a b", "val", "na", "aws_x", "s3", "special", "q\"uote", "back\\slash", "dollar${not}", ""})
	if g.P.Multibyte && g.chance(0.3) {
		s += g.pick([]string{"é", "日本", "👍🏽", "ǎ́"})
	}
	return s
}

func (g *Gen) litOfType(t string, depth int) *Expr {
	switch {
	case t == "string":
		if g.P.HalfTyped > 0 && g.chance(0.04) && !g.P.JSONTwin {
			// evaluates to a null of type string
			return &Expr{K: "raw", S: g.pick([]string{"true ? null : \"a\"", "false ? \"a\" : null", "null"})}
		}
		if depth == 0 && g.P.HalfTyped > 0 && g.chance(0.1) && !g.P.JSONTwin {
			if g.P.Multibyte && g.chance(0.5) {
				return &Expr{K: "heredoc", S: "líne öne ✓\nline twö 日本\n"}
			}
			return &Expr{K: "heredoc", S: "line one\nline two\n"}
		}
		return &Expr{K: "str", S: g.str()}
	case t == "number":
		return &Expr{K: "num", S: g.pick([]string{"0", "1", "42", "3.14", "-7", "1e3"})}
	case t == "bool":
		return &Expr{K: "bool", S: g.pick([]string{"true", "false"})}
	case t == "any" || t == "":
		if depth > 2 {
			return &Expr{K: "str", S: g.str()}
		}
		return g.litOfType(g.pick([]string{"string", "number", "bool", "list(string)", "map(string)", "object({a=string,b=number})"}), depth+1)
	case strings.HasPrefix(t, "list(") || strings.HasPrefix(t, "set("):
		el := t[strings.Index(t, "(")+1 : len(t)-1]
		e := &Expr{K: "list", Multi: g.chance(0.3)}
		n := g.n(4)
		for i := 0; i < n; i++ {
			e.A = append(e.A, g.litOfType(el, depth+1))
		}
		return e
	case strings.HasPrefix(t, "map("):
		el := t[4 : len(t)-1]
		e := &Expr{K: "obj", Multi: g.chance(0.6)}
		n := g.n(4)
		used := map[string]bool{}
		for i := 0; i < n; i++ {
			k := g.ident(used)
			if g.P.Odd && g.chance(0.12) && !used["2xl"] {
				// looks like a name, is none: cannot be an attribute step
				k = g.pick([]string{"2xl", "-x", "9", "a-b"})
				if used[k] {
					continue
				}
				used[k] = true
				e.Keys = append(e.Keys, &Expr{K: "str", S: k})
			} else if g.chance(0.5) {
				e.Keys = append(e.Keys, &Expr{K: "str", S: k})
			} else {
				e.Keys = append(e.Keys, &Expr{K: "kw", S: k})
			}
			e.A = append(e.A, g.litOfType(el, depth+1))
		}
		return e
	case strings.HasPrefix(t, "object("):
		ty := ParseType(t)
		e := &Expr{K: "obj", Multi: g.chance(0.6)}
		names := make([]string, 0)
		for k := range ty.AttributeTypes() { // maporder:ok (sorted below)
			names = append(names, k)
		}
		sortStrings(names)
		for _, k := range names {
			if g.chance(0.85) {
				e.Keys = append(e.Keys, &Expr{K: "kw", S: k})
				e.A = append(e.A, g.litOfType(TypeString(ty.AttributeType(k)), depth+1))
			}
		}
		return e
	case strings.HasPrefix(t, "tuple("):
		ty := ParseType(t)
		e := &Expr{K: "list"}
		for _, et := range ty.TupleElementTypes() {
			e.A = append(e.A, g.litOfType(TypeString(et), depth+1))
		}
		return e
	}
	return &Expr{K: "str", S: g.str()}
}

func sortStrings(s []string) {
	for i := 1; i < len(s); i++ {
		for j := i; j > 0 && s[j] < s[j-1]; j-- {
			s[j], s[j-1] = s[j-1], s[j]
		}
	}
}

// ref yields a placeholder resolved by resolveRefs once all declarations exist.
func (g *Gen) ref() *Expr { return &Expr{K: "ref"} }

var halfTyped = []string{"provider::aws::ar", "provider::aws::", "provider::", "core::lo", "var.", "var.x.", "local.nope[", "x ?", "x ? y :", "1 +", "!", "lower", "lower(\"a\",", "\"${var.", "\"${", "[for", "[for v in", "{for k, v in x :", "x[", "a.b[\"k\"].", "[1, ", "{ a = ", "<<EOT\nunterminated", "tr", "nul", "provider::aws::arn_parse"}

func (g *Gen) anyExpr(t string, depth int) *Expr {
	if g.P.HalfTyped > 0 && !g.P.JSONTwin && g.chance(g.P.HalfTyped) {
		return &Expr{K: "raw", S: g.pick(halfTyped)}
	}
	if depth >= g.P.ExprDepth {
		if g.chance(0.5) {
			return g.ref()
		}
		return g.litOfType(t, 3)
	}
	if g.P.JSONTwin {
		switch g.n(4) {
		case 0:
			return g.ref()
		case 1:
			return &Expr{K: "tmpl", A: []*Expr{{K: "str", S: "pre-"}, g.ref()}}
		default:
			return g.litOfType(t, depth)
		}
	}
	switch g.n(14) {
	case 0, 1, 2:
		return g.ref()
	case 3, 4:
		return g.litOfType(t, depth)
	case 5:
		if g.chance(0.3) {
			// a single interpolation: the value itself, whatever its type
			return &Expr{K: "tmpl", A: []*Expr{g.ref()}}
		}
		parts := []*Expr{{K: "str", S: g.str()}, g.anyExpr("string", depth+1)}
		if g.chance(0.5) {
			parts = append(parts, &Expr{K: "str", S: "-suffix"})
		}
		return &Expr{K: "tmpl", A: parts}
	case 6:
		op := g.pick([]string{"+", "-", "*", "==", "!=", "&&", "||", "<", ">="})
		return &Expr{K: "bin", S: op, A: []*Expr{g.anyExpr("number", depth+1), g.anyExpr("number", depth+1)}}
	case 7:
		return &Expr{K: "un", S: g.pick([]string{"!", "-"}), A: []*Expr{g.anyExpr("bool", depth+1)}}
	case 8:
		return &Expr{K: "cond", A: []*Expr{g.anyExpr("bool", depth+1), g.anyExpr(t, depth+1), g.anyExpr(t, depth+1)}}
	case 9:
		if g.chance(0.5) {
			return &Expr{K: "for", S: "v", A: []*Expr{g.anyExpr("list(string)", depth+1), g.anyExpr("string", depth+1)}}
		}
		return &Expr{K: "for", S: "k,v", Flag: "obj cond", A: []*Expr{g.anyExpr("map(string)", depth+1), &Expr{K: "ref", S: "k"}, g.anyExpr("string", depth+1), g.anyExpr("bool", depth+1)}}
	case 10:
		return &Expr{K: "index", A: []*Expr{g.anyExpr("list(string)", depth+1), g.anyExpr("number", depth+1)}}
	case 11, 12:
		fn := "lower"
		if len(g.funcs) > 0 && g.chance(0.8) {
			fn = g.funcs[g.n(len(g.funcs))].Name
		} else if g.chance(0.5) {
			fn = "unknownfn"
		}
		e := &Expr{K: "call", S: fn}
		n := g.n(3)
		for i := 0; i < n; i++ {
			e.A = append(e.A, g.anyExpr(g.pick([]string{"string", "number", "any"}), depth+1))
		}
		if n > 0 && !g.P.JSONTwin && g.chance(0.35) {
			e.Multi = true
		}
		return e
	default:
		return &Expr{K: "paren", A: []*Expr{g.anyExpr(t, depth+1)}}
	}
}

// exprFor generates an expression for a constraint; conforming unless a
// violation is drawn.
func (g *Gen) exprFor(c *ConsSpec, depth int) *Expr {
	if c == nil {
		return g.litOfType("string", depth)
	}
	if g.chance(g.P.Violations * 0.5) {
		// something of another shape
		return g.anyExpr(g.typ(), g.P.ExprDepth-1)
	}
	switch c.K {
	case "any":
		return g.anyExpr(c.Type, depth)
	case "ref":
		return g.ref()
	case "littype":
		return g.litOfType(c.Type, depth)
	case "litval":
		return &Expr{K: "raw", S: c.Val.Expr}
	case "kw":
		if g.chance(0.85) {
			return &Expr{K: "kw", S: c.Kw}
		}
		return &Expr{K: "kw", S: "otherkw"}
	case "typedecl":
		return &Expr{K: "type", S: g.pick([]string{"string", "number", "bool", "any", "list(string)", "map(number)", "set(string)",
			"object({a=string,b=number})", "tuple([string,number])", "list(object({k=string}))", "object({a=optional(string),b=optional(number, 3)})", "map(any)"})}
	case "list", "set":
		e := &Expr{K: "list", Multi: g.chance(0.3)}
		n := g.n(4)
		for i := 0; i < n; i++ {
			e.A = append(e.A, g.exprFor(c.Elem, depth+1))
		}
		return e
	case "tuple":
		e := &Expr{K: "list"}
		for _, ec := range c.Elems {
			e.A = append(e.A, g.exprFor(ec, depth+1))
		}
		return e
	case "map":
		e := &Expr{K: "obj", Multi: g.chance(0.6)}
		n := g.n(4)
		used := map[string]bool{}
		for i := 0; i < n; i++ {
			k := g.ident(used)
			switch {
			case g.chance(0.1) && !g.P.JSONTwin && g.P.HalfTyped > 0:
				// quoted keys with escapes / odd characters
				e.Keys = append(e.Keys, &Expr{K: "str", S: g.pick([]string{"a\"b", "back\\slash", "tab\there", "sp ace", "dollar${x}", "日本", ""})})
			case c.AllowInterp && g.chance(0.2) && !g.P.JSONTwin:
				e.Keys = append(e.Keys, &Expr{K: "tmpl", A: []*Expr{{K: "str", S: "k-"}, g.ref()}})
			case g.P.Odd && g.chance(0.15):
				// looks like a name, is none: cannot be an attribute step
				e.Keys = append(e.Keys, &Expr{K: "str", S: g.pick([]string{"2xl", "-x", "9", "a-b"})})
			case g.chance(0.6):
				e.Keys = append(e.Keys, &Expr{K: "str", S: k})
			default:
				e.Keys = append(e.Keys, &Expr{K: "kw", S: k})
			}
			e.A = append(e.A, g.exprFor(c.Elem, depth+1))
		}
		return e
	case "object":
		e := &Expr{K: "obj", Multi: g.chance(0.6)}
		if g.P.HalfTyped > 0 && g.chance(0.15) {
			e.Keys = append(e.Keys, &Expr{K: "str", S: g.pick([]string{"a\"b", "back\\slash", "q\"", "日本"})})
			e.A = append(e.A, g.litOfType("string", 3))
		}
		for _, a := range c.Attrs {
			if a.Req || g.chance(0.6) {
				if g.chance(0.2) {
					e.Keys = append(e.Keys, &Expr{K: "str", S: a.Name})
				} else {
					e.Keys = append(e.Keys, &Expr{K: "kw", S: a.Name})
				}
				e.A = append(e.A, g.exprFor(a.Cons, depth+1))
			}
		}
		if g.chance(g.P.Violations) {
			e.Keys = append(e.Keys, &Expr{K: "kw", S: "unknown_key"})
			e.A = append(e.A, g.litOfType("string", 3))
		}
		if !g.P.JSONTwin && g.chance(0.2) {
			// a computed key behind the known ones: (ref), "k-${ref}" or a.b
			var k *Expr
			switch g.n(4) {
			case 3:
				// a constant in parentheses that happens to spell a declared name
				nm := "x"
				if len(c.Attrs) > 0 {
					nm = c.Attrs[g.n(len(c.Attrs))].Name
				}
				k = &Expr{K: "paren", A: []*Expr{{K: "str", S: nm}}}
			case 0:
				k = &Expr{K: "paren", A: []*Expr{g.ref()}}
			case 1:
				k = &Expr{K: "tmpl", A: []*Expr{{K: "str", S: "k-"}, g.ref()}}
			default:
				k = g.ref()
			}
			e.Keys = append(e.Keys, k)
			if g.chance(0.5) {
				e.A = append(e.A, g.ref())
			} else {
				e.A = append(e.A, g.litOfType(g.pick([]string{"string", "number", "bool"}), 3))
			}
			// and sometimes a known one behind it again
			if len(c.Attrs) > 0 && g.chance(0.3) {
				a := c.Attrs[g.n(len(c.Attrs))]
				dup := false
				for _, k := range e.Keys {
					if (k.K == "kw" || k.K == "str") && k.S == a.Name {
						dup = true
					}
				}
				if !dup {
					e.Keys = append(e.Keys, &Expr{K: "kw", S: a.Name})
					e.A = append(e.A, g.exprFor(a.Cons, depth+1))
				}
			}
		}
		return e
	case "oneof":
		if len(c.Elems) == 0 {
			return g.litOfType("string", depth)
		}
		return g.exprFor(c.Elems[g.n(len(c.Elems))], depth)
	}
	return g.litOfType("string", depth)
}

// ---------------------------------------------------------------------------
// items

// mergedBody is the generator's own view of static ⊕ dependent (used only to
// decide what to write; the reference models recompute it independently).
func mergedBody(static, dep *BodySpec) *BodySpec {
	if static == nil && dep == nil {
		return nil
	}
	m := &BodySpec{}
	if static != nil {
		*m = *static
		m.Attrs = append([]*AttrSpec(nil), static.Attrs...)
		m.Blocks = append([]*BlockSpec(nil), static.Blocks...)
	}
	if dep != nil {
		for _, a := range dep.Attrs {
			replaced := false
			for i, x := range m.Attrs {
				if x.Name == a.Name {
					m.Attrs[i] = a
					replaced = true
				}
			}
			if !replaced {
				m.Attrs = append(m.Attrs, a)
			}
		}
		for _, b := range dep.Blocks {
			replaced := false
			for i, x := range m.Blocks {
				if x.Type == b.Type {
					m.Blocks[i] = b
					replaced = true
				}
			}
			if !replaced {
				m.Blocks = append(m.Blocks, b)
			}
		}
		if dep.Ext != nil {
			m.Ext = dep.Ext
		}
		if dep.Any != nil && m.Any == nil && len(m.Attrs) == 0 {
			m.Any = dep.Any
		}
	}
	return m
}

func (g *Gen) items(b *BodySpec, depth int, pathPrefix string) []*Item {
	var out []*Item
	if b == nil {
		if g.chance(0.3) {
			out = append(out, &Item{Attr: &AttrItem{Name: "stray", Expr: g.litOfType("string", 2)}})
		}
		return out
	}
	noise := func() {
		if !g.P.Layout {
			return
		}
		switch g.n(8) {
		case 0:
			out = append(out, &Item{Blank: 1 + g.n(2)})
		case 1:
			c := "# comment"
			if g.P.Multibyte && g.chance(0.5) {
				c = "# kommentár ✓ 日本"
			}
			if g.chance(0.3) {
				c = "// slashes"
			}
			out = append(out, &Item{Comment: c})
		}
	}
	if b.Ext != nil {
		if b.Ext.Count && g.chance(0.4) {
			out = append(out, &Item{Attr: &AttrItem{Name: "count", Expr: g.anyExpr("number", 1)}})
		} else if b.Ext.ForEach && g.chance(0.4) {
			out = append(out, &Item{Attr: &AttrItem{Name: "for_each", Expr: g.anyExpr(g.pick([]string{"map(string)", "set(string)"}), 1)}})
		}
	}
	if b.Any != nil {
		n := g.n(4)
		used := map[string]bool{}
		for i := 0; i < n; i++ {
			noise()
			name := g.ident(used)
			ex := g.exprFor(b.Any.Cons, 0)
			out = append(out, &Item{Attr: &AttrItem{Name: name, Expr: ex}})
			if b.Any.Addr != nil {
				g.lastExpr = ex
				g.declareAttr(b.Any, name)
				g.lastExpr = nil
			}
		}
	}
	for _, a := range b.Attrs {
		p := 0.55
		if a.Req {
			p = 0.9 - g.P.Violations
		}
		if a.Comp && !a.Opt {
			p = 0.05
		}
		if !g.chance(p) {
			continue
		}
		noise()
		ex := g.exprFor(a.Cons, 0)
		if len(a.Hooks) > 0 && depth == 0 && g.P.Multibyte && !g.P.JSONTwin && g.chance(0.3) {
			// a hook-backed string written over several lines, with characters of
			// more than one byte left of where the cursor will be
			ex = &Expr{K: "heredoc", S: "líne öne ✓\nline twö 日本\n"}
		}
		out = append(out, &Item{Attr: &AttrItem{Name: a.Name, Expr: ex}})
		if a.Addr != nil {
			g.lastExpr = ex
			g.declareAttr(a, a.Name)
			g.lastExpr = nil
		}
	}
	if g.chance(g.P.Violations) {
		out = append(out, &Item{Attr: &AttrItem{Name: "bogus_attr", Expr: g.anyExpr("string", 1)}})
	}
	// many small blocks of several types, interleaved (a long rule list)
	many := g.P.ManyBlocks && depth >= 1 && depth <= 2 && len(b.Blocks) >= 2 && g.chance(0.5)
	for _, bl := range b.Blocks {
		n := g.n(3)
		if many && bl.Max == 0 {
			n = 5 + g.n(9)
		}
		if bl.Min > 0 && !g.chance(g.P.Violations) {
			n = int(bl.Min) + g.n(2)
		}
		if bl.Max > 0 && n > int(bl.Max) && !g.chance(g.P.Violations) {
			n = int(bl.Max)
		}
		if depth == 0 && n == 0 && g.chance(0.6) {
			n = 1
		}
		if depth == 0 && bl.Type == "decl" && g.P.ManyTargets > 0 {
			n = g.P.ManyTargets
		}
		for i := 0; i < n; i++ {
			noise()
			out = append(out, g.blockItem(bl, depth, pathPrefix))
		}
	}
	if b.Ext != nil && b.Ext.Dynamic && len(b.Blocks) > 0 && g.chance(0.4) {
		bl := b.Blocks[g.n(len(b.Blocks))]
		if bl.Body != nil {
			inner := g.items(bl.Body, depth+2, pathPrefix)
			dyn := &BlockItem{Type: "dynamic", Labels: []string{bl.Type}, Body: []*Item{
				{Attr: &AttrItem{Name: "for_each", Expr: g.anyExpr("list(string)", 1)}},
				{Block: &BlockItem{Type: "content", Body: inner}},
			}}
			out = append(out, &Item{Block: dyn})
		}
	}
	if g.chance(g.P.Violations) {
		out = append(out, &Item{Block: &BlockItem{Type: "bogus_block", Labels: []string{"l"}, Body: []*Item{{Attr: &AttrItem{Name: "x", Expr: g.anyExpr("string", 1)}}}}})
	}
	// shuffle source order a little: attributes and blocks may interleave
	if many || g.chance(0.3) {
		g.R.Shuffle(len(out), func(i, j int) { out[i], out[j] = out[j], out[i] })
	}
	return out
}

// declareNested records the addresses of the elements of a written value.
func (g *Gen) declareNested(addr string, e *Expr, depth int) {
	if e == nil || depth > 2 {
		return
	}
	switch e.K {
	case "obj":
		for i, k := range e.Keys {
			if (k.K == "kw" || k.K == "str") && isIdent(k.S) {
				g.addrs = append(g.addrs, addr+"."+k.S)
				g.declareNested(addr+"."+k.S, e.A[i], depth+1)
			}
		}
	case "list":
		for i, a := range e.A {
			g.addrs = append(g.addrs, fmt.Sprintf("%s[%d]", addr, i))
			g.declareNested(fmt.Sprintf("%s[%d]", addr, i), a, depth+1)
		}
	}
}

func (g *Gen) declareAttr(a *AttrSpec, name string) {
	var parts []string
	for _, s := range a.Addr.Steps {
		switch s.K {
		case "static":
			parts = append(parts, s.Name)
		case "attrname":
			parts = append(parts, name)
		}
	}
	if len(parts) > 0 {
		g.addrs = append(g.addrs, strings.Join(parts, "."))
		if g.lastExpr != nil {
			g.declareNested(strings.Join(parts, "."), g.lastExpr, 0)
		}
	}
}

func (g *Gen) blockItem(bl *BlockSpec, depth int, pathPrefix string) *Item {
	bi := &BlockItem{Type: bl.Type, BareLabels: g.chance(0.1), OneLine: g.chance(0.1)}
	var dep *DepBodySpec
	if len(bl.Dep) > 0 && g.chance(0.8) {
		dep = bl.Dep[g.n(len(bl.Dep))]
	}
	for i := range bl.Labels {
		v := g.pick([]string{"foo", "bar", "main", "aws_x", "na"})
		if bl.Labels[i].DepKey {
			v = g.pick(g.labelValues())
		}
		if dep != nil {
			for _, l := range dep.Labels {
				if l.Index == i {
					v = l.Value
				}
			}
		}
		g.uniq++
		if !bl.Labels[i].DepKey && g.chance(0.7) {
			v = fmt.Sprintf("%s%d", v, g.uniq)
		}
		if !bl.Labels[i].DepKey && g.P.Odd && !g.P.JSONTwin && g.chance(0.06) {
			// labels that need escaping when written or shown
			v = g.pick([]string{"say \"hi\"", "C:\\temp", "tab\there", "na.b"}) + fmt.Sprint(g.uniq)
		}
		bi.Labels = append(bi.Labels, v)
	}
	if g.chance(g.P.Violations * 0.5) {
		if g.chance(0.5) {
			bi.Labels = append(bi.Labels, "surplus")
		} else if len(bi.Labels) > 0 {
			bi.Labels = bi.Labels[:len(bi.Labels)-1]
		}
	}
	var depBody *BodySpec
	if dep != nil {
		depBody = dep.Body
	}
	eff := mergedBody(bl.Body, depBody)
	bi.Body = g.items(eff, depth+1, pathPrefix)
	// make key attributes agree with the chosen dependent body
	if dep != nil {
		for _, ad := range dep.Attrs {
			var e *Expr
			if ad.Static != nil {
				e = &Expr{K: "raw", S: ad.Static.Expr}
			} else {
				e = &Expr{K: "ref", S: ad.Addr}
			}
			set := false
			for _, it := range bi.Body {
				if it.Attr != nil && it.Attr.Name == ad.Name {
					it.Attr.Expr = e
					set = true
				}
			}
			if !set {
				// a default may supply it; otherwise write it
				ka := bl.Body.Attr(ad.Name)
				if ka == nil && dep.Body != nil {
					ka = dep.Body.Attr(ad.Name)
				}
				if ka == nil || ka.Default == nil || ad.Static == nil || ka.Default.Expr != ad.Static.Expr || g.chance(0.5) {
					bi.Body = append([]*Item{{Attr: &AttrItem{Name: ad.Name, Expr: e}}}, bi.Body...)
				}
			}
		}
	}
	// a still-undecided value for an attribute the block's address takes a step
	// from: a conditional that evaluates to a null of type string
	if bl.Addr != nil && g.P.HalfTyped > 0 && !g.P.JSONTwin {
		for _, st := range bl.Addr.Steps {
			if st.K != "attrvalue" || !g.chance(0.15) {
				continue
			}
			e := &Expr{K: "raw", S: g.pick([]string{"true ? null : \"a\"", "false ? \"a\" : null"})}
			set := false
			for _, it := range bi.Body {
				if it.Attr != nil && it.Attr.Name == st.Name {
					it.Attr.Expr = e
					set = true
				}
			}
			if !set {
				bi.Body = append(bi.Body, &Item{Attr: &AttrItem{Name: st.Name, Expr: e}})
			}
		}
	}
	// address of this declaration
	if bl.Addr != nil {
		var parts []string
		ok := true
		for _, s := range bl.Addr.Steps {
			switch s.K {
			case "static":
				parts = append(parts, s.Name)
			case "label":
				if int(s.Index) < len(bi.Labels) && (isIdent(bi.Labels[s.Index]) || dottedIdent(bi.Labels[s.Index])) {
					// (a label like "na.b7" is one step; written as a reference its
					// text reads as two - a look-alike no declaration answers to)
					parts = append(parts, bi.Labels[s.Index])
				} else {
					ok = false
				}
			case "attrvalue":
				found := false
				for _, it := range bi.Body {
					if it.Attr != nil && it.Attr.Name == s.Name && it.Attr.Expr != nil && it.Attr.Expr.K == "str" && isIdent(it.Attr.Expr.S) {
						parts = append(parts, it.Attr.Expr.S)
						found = true
					}
				}
				if !found && !s.Optional {
					ok = false
				}
			}
		}
		if ok && len(parts) > 0 {
			addr := strings.Join(parts, ".")
			g.addrs = append(g.addrs, addr)
			// nested data attributes
			if eff != nil && (bl.Addr.BodyAsData || bl.Addr.DepBodyAsData) {
				for _, a := range eff.Attrs {
					g.addrs = append(g.addrs, addr+"."+a.Name)
				}
			}
		}
	}
	return &Item{Block: bi}
}

func dottedIdent(s string) bool {
	ps := strings.Split(s, ".")
	if len(ps) < 2 {
		return false
	}
	for _, p := range ps {
		if !isIdent(p) {
			return false
		}
	}
	return true
}

// resolveRefs fills in placeholder references now that all declarations are known.
func (g *Gen) resolveRefs(files []*FileSpec) {
	for _, f := range files {
		WalkItems(f.Items, func(it *Item, d int) {
			if it.Attr == nil {
				return
			}
			it.Attr.Expr.Walk(func(e *Expr) {
				if e.K == "ref" && e.S == "" {
					e.S = g.refText()
				}
			})
		})
	}
}

func (g *Gen) refText() string {
	var s string
	switch {
	case len(g.addrs) > 0 && g.chance(0.75):
		s = g.addrs[g.n(len(g.addrs))]
	case g.chance(0.3):
		s = g.pick([]string{"count.index", "each.key", "each.value", "self.name", "self.id"})
	case len(g.builtins) > 0 && g.chance(0.3):
		return g.builtins[g.n(len(g.builtins))]
	default:
		s = g.pick([]string{"var.missing", "local.nope", "prov.one", "prov.two", "x"})
	}
	switch g.n(8) {
	case 0:
		s += ".extra"
	case 1:
		s += "[0]"
	case 2:
		s += `["k"]`
	}
	return s
}

// ---------------------------------------------------------------------------
// world

func (g *Gen) World() *World {
	w := &World{}
	if g.P.Hooks {
		w.Hooks = []HookSpec{{Name: "h1", Behaviour: "ok", N: 1 + g.n(4)}, {Name: "h2", Behaviour: g.pick([]string{"ok", "error", "partial", "empty", "overflow"}), N: 2}}
	}
	if g.chance(0.5) {
		w.UtmSource, w.UtmMedium, w.UseUtmContent = "sim", g.pick([]string{"", "vscode"}), g.chance(0.5)
	}
	if g.chance(0.5) {
		w.Lenses = []string{"ok", g.pick([]string{"ok", "error", "empty"})}
	}
	g.funcs = g.functions()
	if g.P.Builtins {
		w.Builtins = []BuiltinSpec{{Addr: "path.module", Type: "string"}, {Addr: "terraform.workspace", Type: "string", Scope: g.pick(append([]string{""}, g.scopes...))}}
		g.builtins = []string{"path.module", "terraform.workspace"}
	}
	var shared *BodySpec
	for pi := 0; pi < g.P.Paths; pi++ {
		p := &PathSpec{Dir: fmt.Sprintf("/ws/mod%d", pi), Lang: "simlang", Funcs: g.funcs}
		if pi == 0 || !g.chance(0.6) {
			p.Schema = g.rootSchema()
			shared = p.Schema
		} else {
			p.Schema = shared // same language, same schema (typical workspace)
		}
		if g.chance(0.7) {
			p.Validators = append([]string(nil), StockValidators...)
			if g.chance(0.3) {
				g.R.Shuffle(len(p.Validators), func(i, j int) { p.Validators[i], p.Validators[j] = p.Validators[j], p.Validators[i] })
			}
		}
		w.Paths = append(w.Paths, p)
	}
	// cross-path links
	if g.P.CrossPath && len(w.Paths) > 1 {
		for pi, p := range w.Paths {
			other := w.Paths[(pi+1)%len(w.Paths)]
			for _, bl := range p.Schema.Blocks {
				if bl.Body == nil || len(bl.Labels) == 0 {
					continue
				}
				if g.chance(0.5) {
					for _, a := range bl.Body.Attrs {
						if a.OriginFor == nil && g.chance(0.3) {
							a.OriginFor = &PathTargetSpec{Steps: []StepSpec{{K: "static", Name: "attr"}, {K: "attrname"}}, Path: other.Dir, Lang: other.Lang, Scope: g.pick(g.scopes), Type: g.pick([]string{"", "string", "any"})}
						}
					}
				}
				if g.chance(0.3) {
					bl.Body.Implied = append(bl.Body.Implied, &ImpliedSpec{Origin: "var.missing", Target: "attr." + g.pick(stems), Path: other.Dir, Lang: other.Lang, Type: g.pick([]string{"", "any"})})
				}
				if g.chance(0.2) {
					bl.Body.Targets = &TargetsSpec{Path: other.Dir, Lang: other.Lang, File: g.fileName((pi+1)%len(w.Paths), 0), Start: [3]int{1, 1, 0}, End: [3]int{1, 1, 0}}
				}
			}
		}
	}
	for pi, p := range w.Paths {
		g.addrs = nil
		nf := 1 + g.n(g.P.FilesPer)
		for fi := 0; fi < nf; fi++ {
			name := g.fileName(pi, fi)
			f := &FileSpec{Name: name, Items: g.items(p.Schema, 0, p.Dir)}
			if g.P.Typing && p.Schema != nil {
				// one or two names in the middle of being typed, between the items
				var names []string
				for _, a := range p.Schema.Attrs {
					names = append(names, a.Name)
				}
				for _, b := range p.Schema.Blocks {
					names = append(names, b.Type)
				}
				for k := 0; k < 1+g.n(2) && len(names) > 0; k++ {
					nm := names[g.n(len(names))]
					if r := []rune(nm); len(r) > 1 {
						nm = string(r[:1+g.n(len(r)-1)]) // cut between characters
					}
					at := g.n(len(f.Items) + 1)
					f.Items = append(f.Items[:at:at], append([]*Item{{Bare: nm}}, f.Items[at:]...)...)
				}
			}
			if g.P.Layout {
				f.Layout = g.R.Uint64() | 1
			}
			p.Files = append(p.Files, f)
		}
		// the name the implied (cross-path) origins use is sometimes declared
		// locally as well: one traversal is then a local and a path origin
		if g.P.CrossPath && len(p.Files) > 0 && p.Schema.Block("variable") != nil && g.chance(0.5) {
			p.Files[0].Items = append(p.Files[0].Items, &Item{Block: &BlockItem{Type: "variable", Labels: []string{"missing"}}},
				&Item{Block: &BlockItem{Type: "output", Labels: []string{"uses_missing"}, Body: []*Item{{Attr: &AttrItem{Name: "value", Expr: &Expr{K: "ref", S: "var.missing"}}}}}})
		}
		g.resolveRefs(p.Files)
		if g.P.JSONFiles && g.P.JSONTwin {
			for _, f := range p.Files {
				if g.chance(0.6) && ItemsJSONExpressible(f.Items) {
					f.JSON = true
					f.Name += ".json"
					f.Layout = []uint64{0, 2}[g.n(2)]
				}
			}
		}
	}
	if g.P.ClonePath && len(w.Paths) >= 2 {
		// e.g. /env/dev and /env/prod holding the same files and pointing into the same module
		src := w.Paths[0]
		cl := &PathSpec{Dir: src.Dir + "_copy", Lang: src.Lang, Schema: src.Schema, SchemaV2: src.SchemaV2, Funcs: src.Funcs, Validators: src.Validators}
		for _, f := range src.Files {
			b, _ := json.Marshal(f)
			var nf FileSpec
			json.Unmarshal(b, &nf)
			cl.Files = append(cl.Files, &nf)
		}
		w.Paths = append(w.Paths, cl)
	}
	if g.P.SiblingLang && len(w.Paths) >= 1 {
		// one directory served under two language ids, like a module and its
		// variable-definition files: every attribute of the sibling is an origin
		// pointing at a declaration of the module
		src := w.Paths[0]
		for _, bl := range src.Schema.Blocks {
			if bl.Addr == nil || len(bl.Addr.Steps) != 2 || bl.Addr.Steps[0].K != "static" || bl.Addr.Steps[1].K != "label" || bl.Addr.Steps[1].Index != 0 || len(bl.Labels) == 0 {
				continue
			}
			var names []string
			seen := map[string]bool{}
			for _, f := range src.Files {
				for _, it := range f.Items {
					if it.Block != nil && it.Block.Type == bl.Type && len(it.Block.Labels) > 0 && !seen[it.Block.Labels[0]] && isIdent(it.Block.Labels[0]) {
						seen[it.Block.Labels[0]] = true
						names = append(names, it.Block.Labels[0])
					}
				}
			}
			if len(names) == 0 {
				continue
			}
			sib := &PathSpec{Dir: src.Dir, Lang: "simvars", Validators: src.Validators, Schema: &BodySpec{Any: &AttrSpec{Name: "any", Opt: true, Cons: &ConsSpec{K: "any", Type: "any"},
				OriginFor: &PathTargetSpec{Steps: []StepSpec{{K: "static", Name: bl.Addr.Steps[0].Name}, {K: "attrname"}}, Path: src.Dir, Lang: src.Lang, Scope: bl.Addr.Scope}}}}
			f := &FileSpec{Name: "vars.sim"}
			for _, n := range names {
				f.Items = append(f.Items, &Item{Attr: &AttrItem{Name: n, Expr: g.litOfType("string", 3)}})
			}
			if g.chance(0.3) {
				f.Items = append(f.Items, &Item{Attr: &AttrItem{Name: "undeclared", Expr: g.litOfType("number", 3)}})
			}
			sib.Files = []*FileSpec{f}
			w.Paths = append(w.Paths, sib)
			break
		}
	}
	if g.P.NoSchema {
		for _, p := range w.Paths {
			p.Schema = nil
		}
	}
	return w
}

// fileName: main.sim, f1.sim, ... in every path, or names no two paths share.
func (g *Gen) fileName(pi, fi int) string {
	name := "main.sim"
	if fi > 0 {
		name = fmt.Sprintf("f%d.sim", fi)
	}
	if g.P.DistinctNames {
		name = fmt.Sprintf("p%d_%s", pi, name)
	}
	return name
}

func (g *Gen) rootSchema() *BodySpec {
	b := g.body(0, true)
	b.Any = nil
	if g.P.Terraformy {
		g.terraformZoo(b)
	}
	if g.P.BigBody {
		// a block whose body holds many addressable attributes of the same address root
		n := 13 + g.n(28)
		body := &BodySpec{}
		for i := 0; i < n; i++ {
			a := &AttrSpec{Name: fmt.Sprintf("big%02d", i), Opt: true, Cons: &ConsSpec{K: "any", Type: g.pick([]string{"string", "list(string)", "any"})}}
			a.Addr = &AttrAddrSpec{Steps: []StepSpec{{K: "static", Name: "big"}, {K: "attrname"}}, AsExprType: true, AsRef: true, Scope: "sc_a"}
			body.Attrs = append(body.Attrs, a)
		}
		b.Blocks = append(b.Blocks, &BlockSpec{Type: "bigblock", Body: body})
	}
	if g.P.ManyTargets > 0 {
		b.Blocks = append(b.Blocks, &BlockSpec{Type: "decl", Labels: []*LabelSpec{{Name: "name"}},
			Body: &BodySpec{Attrs: []*AttrSpec{{Name: "default", Opt: true, Cons: &ConsSpec{K: "any", Type: "any"}}}},
			Addr: &BlockAddrSpec{Steps: []StepSpec{{K: "static", Name: "decl"}, {K: "label", Index: 0}}, AsRef: true, UnknownNested: true, Scope: "sc_a"}})
		b.Attrs = append(b.Attrs, &AttrSpec{Name: "use", Opt: true, Cons: &ConsSpec{K: "any", Type: "string"}})
	}
	b.SortSpec()
	dedupAttrs(b)
	return b
}

// terraformZoo adds block types shaped like the real consumer's schema.
func (g *Gen) terraformZoo(b *BodySpec) {
	add := func(bl *BlockSpec) {
		if b.Block(bl.Type) == nil && b.Attr(bl.Type) == nil {
			b.Blocks = append(b.Blocks, bl)
		}
	}
	add(&BlockSpec{Type: "variable", Labels: []*LabelSpec{{Name: "name"}}, Desc: "Input variable",
		Body: &BodySpec{Attrs: []*AttrSpec{
			{Name: "type", Opt: true, Cons: &ConsSpec{K: "typedecl"}},
			{Name: "default", Opt: true, Cons: &ConsSpec{K: "any", Type: "any"}},
			{Name: "sensitive", Opt: true, Cons: &ConsSpec{K: "littype", Type: "bool"}},
			{Name: "description", Opt: true, Cons: &ConsSpec{K: "littype", Type: "string"}},
		}},
		Addr: &BlockAddrSpec{Steps: []StepSpec{{K: "static", Name: "var"}, {K: "label", Index: 0}}, Name: "variable", Scope: "variable", AsTypeOf: "type"}})
	add(&BlockSpec{Type: "locals", Body: &BodySpec{Any: &AttrSpec{Name: "any", Opt: true, Cons: &ConsSpec{K: "any", Type: "any"},
		Addr: &AttrAddrSpec{Steps: []StepSpec{{K: "static", Name: "local"}, {K: "attrname"}}, Scope: "local", AsExprType: true, AsRef: true}}}})
	var ruleExt *ExtSpec
	if g.chance(0.5) {
		ruleExt = &ExtSpec{Count: g.chance(0.5)}
	}
	resTargetable := g.chance(0.4)
	resBody := func(i int) *BodySpec {
		var tas []*TargetableSpec
		if resTargetable {
			root := fmt.Sprintf("restgt.r%d", i)
			tas = []*TargetableSpec{{Addr: root, Scope: "resource", Type: "object({zone=string,id=string,arn=string})", Name: "resource data",
				Nested: []*TargetableSpec{{Addr: root + ".zone", Type: "string"}, {Addr: root + ".id", Type: "string"}, {Addr: root + ".arn", Type: "string"}}}}
		}
		return &BodySpec{Detail: "res detail", Desc: fmt.Sprintf("resource %d", i), DocsLink: &DocsLinkSpec{URL: fmt.Sprintf("https://example.com/r/%d", i)}, HoverURL: fmt.Sprintf("https://example.com/r/%d", i), TargetableAs: tas,
			Attrs: []*AttrSpec{
				{Name: "id", Comp: true, Cons: &ConsSpec{K: "any", Type: "string"}},
				{Name: "name", Req: true, Cons: &ConsSpec{K: "any", Type: "string"}},
				{Name: "tags", Opt: true, Cons: &ConsSpec{K: "any", Type: "map(string)"}},
				{Name: "size", Opt: true, Cons: &ConsSpec{K: "any", Type: "number"}},
				{Name: "secret_wo", Opt: true, WriteOnly: true, Cons: &ConsSpec{K: "any", Type: "string"}},
				{Name: "token_wo", Opt: true, WriteOnly: true, Cons: &ConsSpec{K: "any", Type: "string"}},
				{Name: "key_wo", Opt: true, WriteOnly: true, Cons: &ConsSpec{K: "any", Type: "number"}},
			},
			Blocks: []*BlockSpec{
				{Type: "rule", BType: "list", Body: &BodySpec{Ext: ruleExt, Attrs: []*AttrSpec{{Name: "port", Opt: true, Cons: &ConsSpec{K: "any", Type: "number"}}, {Name: "cidr", Opt: true, Cons: &ConsSpec{K: "any", Type: "string"}}}}},
				{Type: "opts", BType: "object", Max: 1, Body: &BodySpec{Attrs: []*AttrSpec{{Name: "mode", Opt: true, Cons: &ConsSpec{K: "oneof", Elems: []*ConsSpec{{K: "kw", Kw: "auto"}, {K: "littype", Type: "string"}}}}}}},
				{Type: "zone", BType: "set", Body: &BodySpec{Attrs: []*AttrSpec{{Name: "zone", Opt: true, Cons: &ConsSpec{K: "any", Type: "string"}}}}},
				{Type: "ep", BType: "map", Labels: []*LabelSpec{{Name: "key"}}, Body: &BodySpec{Attrs: []*AttrSpec{{Name: "url", Opt: true, Cons: &ConsSpec{K: "any", Type: "string"}}}}},
			}}
	}
	add(&BlockSpec{Type: "resource", Labels: []*LabelSpec{{Name: "type", DepKey: true, Completable: true, Mods: []string{"tf-type"}}, {Name: "name", Mods: []string{"tf-name"}}},
		Body: &BodySpec{Ext: &ExtSpec{Count: true, ForEach: true, Dynamic: true, SelfRefs: g.chance(0.5)}, Attrs: []*AttrSpec{{Name: "provider", Opt: true, DepKey: true, Cons: &ConsSpec{K: "ref", Scope: "provider"}}},
			// a static nested block with extensions of its own (like Terraform's provisioner/connection)
			Blocks: []*BlockSpec{{Type: "provisioner", Labels: []*LabelSpec{{Name: "type"}}, Body: &BodySpec{Ext: &ExtSpec{SelfRefs: true},
				Attrs: []*AttrSpec{{Name: "command", Opt: true, Cons: &ConsSpec{K: "any", Type: "string"}}, {Name: "when", Opt: true, Cons: &ConsSpec{K: "kw", Kw: "destroy"}}}}}}},
		Dep: []*DepBodySpec{
			{Labels: []LabelDepSpec{{Index: 0, Value: "aws_x"}}, Body: resBody(0)},
			{Labels: []LabelDepSpec{{Index: 0, Value: "aws_y"}}, Body: resBody(1)},
			{Labels: []LabelDepSpec{{Index: 0, Value: "aws_x"}}, Attrs: []AttrDepSpec{{Name: "provider", Addr: "prov.two"}}, Body: resBody(2)},
		},
		Addr: &BlockAddrSpec{Steps: []StepSpec{{K: "label", Index: 0}, {K: "label", Index: 1}}, Name: "resource", Scope: "resource", DepBodyAsData: true, InferDepBody: true, DepBodySelfRef: true}})
	add(&BlockSpec{Type: "provider", Labels: []*LabelSpec{{Name: "name", DepKey: true, Completable: true}},
		Body: &BodySpec{Attrs: []*AttrSpec{{Name: "alias", Opt: true, Cons: &ConsSpec{K: "littype", Type: "string"}}}},
		Dep:  []*DepBodySpec{{Labels: []LabelDepSpec{{Index: 0, Value: "prov"}}, Body: &BodySpec{Attrs: []*AttrSpec{{Name: "region", Opt: true, Cons: &ConsSpec{K: "any", Type: "string"}}}}}},
		Addr: &BlockAddrSpec{Steps: []StepSpec{{K: "label", Index: 0}, {K: "attrvalue", Name: "alias", Optional: true}}, Name: "provider", Scope: "provider", AsRef: true}})
	add(&BlockSpec{Type: "output", Labels: []*LabelSpec{{Name: "name"}},
		Body: &BodySpec{Attrs: []*AttrSpec{{Name: "value", Req: true, Cons: &ConsSpec{K: "any", Type: "any"}}}},
		Addr: &BlockAddrSpec{Steps: []StepSpec{{K: "static", Name: "output"}, {K: "label", Index: 0}}, Name: "output", Scope: "output", AsRef: true}})
	add(&BlockSpec{Type: "backendcfg", Max: 1,
		Body: &BodySpec{Attrs: []*AttrSpec{{Name: "backend", Opt: true, DepKey: true, Default: &ValSpec{Expr: `"local"`}, Cons: &ConsSpec{K: "littype", Type: "string"}}}},
		Dep: []*DepBodySpec{
			{Attrs: []AttrDepSpec{{Name: "backend", Static: &ValSpec{Expr: `"local"`}}}, Body: &BodySpec{DocsLink: &DocsLinkSpec{URL: "https://example.com/backend/local"}, Attrs: []*AttrSpec{{Name: "path", Opt: true, Cons: &ConsSpec{K: "littype", Type: "string"}}}}},
			{Attrs: []AttrDepSpec{{Name: "backend", Static: &ValSpec{Expr: `"s3"`}}}, Body: &BodySpec{DocsLink: &DocsLinkSpec{URL: "https://example.com/backend/s3"}, Attrs: []*AttrSpec{{Name: "bucket", Req: true, Cons: &ConsSpec{K: "littype", Type: "string"}}}}},
		}})
}
