// Package world holds the serialisable model of a simulated deployment: the
// schema, functions, hooks and configuration files of every path. A scenario
// (replay file) stores this model, never Go values of the library; Compile
// turns it into real schema.* values, Render into bytes plus a table of the
// byte range of every node (the ground truth used by the reference models).
package world

// World is everything a stub language server holds.
type World struct {
	Paths []*PathSpec `json:"paths"`
	Hooks []HookSpec  `json:"hooks,omitempty"`
	// decoder context
	UtmSource     string   `json:"utm_source,omitempty"`
	UtmMedium     string   `json:"utm_medium,omitempty"`
	UseUtmContent bool     `json:"utm_content,omitempty"`
	Lenses        []string `json:"lenses,omitempty"` // "ok" | "error" | "empty"
	// Builtins: addresses the server itself adds to every path's targets
	// (path.module, terraform.workspace): typed, scoped, without any range
	Builtins []BuiltinSpec `json:"builtins,omitempty"`
}

type BuiltinSpec struct {
	Addr  string `json:"addr"`
	Scope string `json:"scope,omitempty"`
	Type  string `json:"type,omitempty"`
}

type HookSpec struct {
	Name string `json:"name"`
	// ok: k candidates with the prefix; error: (nil, err); partial: (some, err);
	// empty: (nil, nil); overflow: limit+7 candidates
	Behaviour string `json:"behaviour"`
	N         int    `json:"n,omitempty"`
}

type PathSpec struct {
	Dir        string      `json:"dir"`
	Lang       string      `json:"lang"`
	Schema     *BodySpec   `json:"schema,omitempty"`
	SchemaV2   *BodySpec   `json:"schema_v2,omitempty"`
	Files      []*FileSpec `json:"files"`
	Funcs      []*FuncSpec `json:"funcs,omitempty"`
	Validators []string    `json:"validators,omitempty"`
}

type FuncSpec struct {
	Name     string      `json:"name"`
	Params   []ParamSpec `json:"params,omitempty"`
	VarParam *ParamSpec  `json:"var_param,omitempty"`
	Return   string      `json:"ret"`
	Desc     string      `json:"desc,omitempty"`
}

type ParamSpec struct {
	Name string `json:"name"`
	Type string `json:"type"`
	Desc string `json:"desc,omitempty"`
}

type BodySpec struct {
	Attrs        []*AttrSpec       `json:"attrs,omitempty"`
	Any          *AttrSpec         `json:"any,omitempty"`
	Blocks       []*BlockSpec      `json:"blocks,omitempty"`
	Ext          *ExtSpec          `json:"ext,omitempty"`
	Detail       string            `json:"detail,omitempty"`
	Desc         string            `json:"desc,omitempty"`
	HoverURL     string            `json:"hover_url,omitempty"`
	DocsLink     *DocsLinkSpec     `json:"docs_link,omitempty"`
	Deprecated   bool              `json:"deprecated,omitempty"`
	Targets      *TargetsSpec      `json:"targets,omitempty"`
	TargetableAs []*TargetableSpec `json:"targetable_as,omitempty"`
	Implied      []*ImpliedSpec    `json:"implied,omitempty"`
}

type ExtSpec struct {
	Count    bool `json:"count,omitempty"`
	ForEach  bool `json:"for_each,omitempty"`
	Dynamic  bool `json:"dynamic,omitempty"`
	SelfRefs bool `json:"self_refs,omitempty"`
}

type DocsLinkSpec struct {
	URL     string `json:"url"`
	Tooltip string `json:"tooltip,omitempty"`
}

type TargetsSpec struct {
	Path  string `json:"path"`
	Lang  string `json:"lang"`
	File  string `json:"file"`
	Start [3]int `json:"start"` // line, col, byte
	End   [3]int `json:"end"`
}

type TargetableSpec struct {
	Addr   string            `json:"addr"` // traversal text
	Scope  string            `json:"scope,omitempty"`
	Type   string            `json:"type,omitempty"`
	Name   string            `json:"name,omitempty"`
	Desc   string            `json:"desc,omitempty"`
	Nested []*TargetableSpec `json:"nested,omitempty"`
}

type ImpliedSpec struct {
	Origin string `json:"origin"`
	Target string `json:"target"`
	Path   string `json:"path"`
	Lang   string `json:"lang"`
	Scope  string `json:"scope,omitempty"`
	Type   string `json:"type,omitempty"`
}

type AttrSpec struct {
	Name      string          `json:"name"`
	Cons      *ConsSpec       `json:"cons"`
	Req       bool            `json:"req,omitempty"`
	Opt       bool            `json:"opt,omitempty"`
	Comp      bool            `json:"comp,omitempty"`
	Depr      bool            `json:"depr,omitempty"`
	Sens      bool            `json:"sens,omitempty"`
	WriteOnly bool            `json:"wo,omitempty"`
	DepKey    bool            `json:"dep_key,omitempty"`
	Default   *ValSpec        `json:"default,omitempty"`
	Addr      *AttrAddrSpec   `json:"addr,omitempty"`
	OriginFor *PathTargetSpec `json:"origin_for,omitempty"`
	Hooks     []string        `json:"hooks,omitempty"`
	Mods      []string        `json:"mods,omitempty"`
	Desc      string          `json:"desc,omitempty"`
}

type AttrAddrSpec struct {
	Steps      []StepSpec `json:"steps"`
	Name       string     `json:"name,omitempty"`
	Scope      string     `json:"scope,omitempty"`
	AsExprType bool       `json:"as_expr_type,omitempty"`
	AsRef      bool       `json:"as_ref,omitempty"`
}

// StepSpec: K = static|label|attrname|attrvalue
type StepSpec struct {
	K        string `json:"k"`
	Name     string `json:"name,omitempty"`
	Index    uint   `json:"index,omitempty"`
	Optional bool   `json:"optional,omitempty"`
}

type PathTargetSpec struct {
	Steps []StepSpec `json:"steps"`
	Path  string     `json:"path"`
	Lang  string     `json:"lang"`
	Scope string     `json:"scope,omitempty"`
	Type  string     `json:"type,omitempty"`
}

type LabelSpec struct {
	Name        string   `json:"name"`
	DepKey      bool     `json:"dep_key,omitempty"`
	Completable bool     `json:"completable,omitempty"`
	Desc        string   `json:"desc,omitempty"`
	Mods        []string `json:"mods,omitempty"`
}

type BlockSpec struct {
	Type   string         `json:"type"`
	Labels []*LabelSpec   `json:"labels,omitempty"`
	BType  string         `json:"btype,omitempty"` // ""|list|set|map|object
	Min    uint64         `json:"min,omitempty"`
	Max    uint64         `json:"max,omitempty"`
	Depr   bool           `json:"depr,omitempty"`
	Desc   string         `json:"desc,omitempty"`
	Mods   []string       `json:"mods,omitempty"`
	Body   *BodySpec      `json:"body,omitempty"`
	Dep    []*DepBodySpec `json:"dep,omitempty"`
	Addr   *BlockAddrSpec `json:"addr,omitempty"`
}

type DepBodySpec struct {
	Labels []LabelDepSpec `json:"labels,omitempty"`
	Attrs  []AttrDepSpec  `json:"attrs,omitempty"`
	Body   *BodySpec      `json:"body"`
}

type LabelDepSpec struct {
	Index int    `json:"index"`
	Value string `json:"value"`
}

type AttrDepSpec struct {
	Name   string   `json:"name"`
	Static *ValSpec `json:"static,omitempty"`
	Addr   string   `json:"addr,omitempty"`
}

type BlockAddrSpec struct {
	Steps          []StepSpec `json:"steps"`
	Name           string     `json:"name,omitempty"`
	Scope          string     `json:"scope,omitempty"`
	AsRef          bool       `json:"as_ref,omitempty"`
	AsTypeOf       string     `json:"as_type_of,omitempty"` // attribute name; "-" = empty AttributeExpr
	BodyAsData     bool       `json:"body_as_data,omitempty"`
	InferBody      bool       `json:"infer_body,omitempty"`
	BodySelfRef    bool       `json:"body_self_ref,omitempty"`
	DepBodyAsData  bool       `json:"dep_body_as_data,omitempty"`
	InferDepBody   bool       `json:"infer_dep_body,omitempty"`
	DepBodySelfRef bool       `json:"dep_body_self_ref,omitempty"`
	UnknownNested  bool       `json:"unknown_nested,omitempty"`
}

// ConsSpec: K = any|ref|littype|litval|kw|typedecl|list|set|tuple|map|object|oneof
type ConsSpec struct {
	K           string      `json:"k"`
	Type        string      `json:"type,omitempty"`
	SkipComplex bool        `json:"skip_complex,omitempty"`
	Scope       string      `json:"scope,omitempty"`
	AddrScope   string      `json:"addr_scope,omitempty"`
	Name        string      `json:"name,omitempty"`
	Val         *ValSpec    `json:"val,omitempty"`
	Kw          string      `json:"kw,omitempty"`
	Elem        *ConsSpec   `json:"elem,omitempty"`
	Elems       []*ConsSpec `json:"elems,omitempty"`
	Attrs       []*AttrSpec `json:"attrs,omitempty"`
	AllowInterp bool        `json:"allow_interp,omitempty"`
	Min         uint64      `json:"min,omitempty"`
	Max         uint64      `json:"max,omitempty"`
	Desc        string      `json:"desc,omitempty"`
	Depr        bool        `json:"depr,omitempty"`
}

// ValSpec is an HCL literal expression evaluated without variables, optionally
// converted to Type.
type ValSpec struct {
	Expr string `json:"expr"`
	Type string `json:"type,omitempty"`
}

// ---------------------------------------------------------------------------
// configuration

type FileSpec struct {
	Name   string  `json:"name"`
	JSON   bool    `json:"json,omitempty"`
	Items  []*Item `json:"items,omitempty"`
	Layout uint64  `json:"layout,omitempty"`
	// Raw, if non-nil, is the file content verbatim (Items ignored).
	Raw *string `json:"raw,omitempty"`
}

// Item is an attribute, a block, or layout noise.
type Item struct {
	Attr    *AttrItem  `json:"attr,omitempty"`
	Block   *BlockItem `json:"block,omitempty"`
	Comment string     `json:"comment,omitempty"` // "# ..." or "// ..." line
	Blank   int        `json:"blank,omitempty"`   // blank lines
	// Bare: a name being typed on a line of its own ("res"): no item yet
	Bare string `json:"bare,omitempty"`
	ID      int        `json:"id,omitempty"`      // assigned by Render (stable per file)
}

type AttrItem struct {
	Name string `json:"name"`
	Expr *Expr  `json:"expr"`
}

type BlockItem struct {
	Type   string   `json:"type"`
	Labels []string `json:"labels,omitempty"`
	// BareLabels: render label i as an identifier instead of a quoted string
	BareLabels bool    `json:"bare_labels,omitempty"`
	OneLine    bool    `json:"one_line,omitempty"`
	Body       []*Item `json:"body,omitempty"`
}

// Expr kinds: str num bool null ref tmpl bin un cond for index call paren list obj kw type raw heredoc splat
type Expr struct {
	K    string  `json:"k"`
	S    string  `json:"s,omitempty"`    // str: content; num/bool/kw/type/raw: text; ref: traversal text; bin/un: operator; call: function name; for: iterator names "k,v"
	A    []*Expr `json:"a,omitempty"`    // operands / elements / args / template parts
	Keys []*Expr `json:"keys,omitempty"` // obj: keys (parallel to A)
	// obj: true = "key = value" items on separate lines; list: multi-line
	Multi bool `json:"multi,omitempty"`
	// obj key style / for flags
	Flag string `json:"flag,omitempty"`
	ID   int    `json:"id,omitempty"` // assigned by Render
}
