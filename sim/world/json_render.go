package world

import (
	"encoding/json"
	"sort"
	"strings"
)

// JSON rendering of the fragment both syntaxes can express: blocks with labels,
// literal values, lists / objects, references (as "${...}" templates) and
// string templates.

type jsonObj struct {
	keys []string
	vals map[string]any
}

func newObj() *jsonObj { return &jsonObj{vals: map[string]any{}} }

func (o *jsonObj) set(k string, v any) {
	if _, ok := o.vals[k]; !ok {
		o.keys = append(o.keys, k)
	}
	o.vals[k] = v
}

func (o *jsonObj) MarshalJSON() ([]byte, error) {
	var b strings.Builder
	b.WriteByte('{')
	for i, k := range o.keys {
		if i > 0 {
			b.WriteByte(',')
		}
		kb, _ := json.Marshal(k)
		b.Write(kb)
		b.WriteByte(':')
		vb, err := json.Marshal(o.vals[k])
		if err != nil {
			return nil, err
		}
		b.Write(vb)
	}
	b.WriteByte('}')
	return []byte(b.String()), nil
}

func tmplEscape(s string) string {
	s = strings.ReplaceAll(s, "${", "$${")
	s = strings.ReplaceAll(s, "%{", "%%{")
	return s
}

// JSONExpressible reports whether an expression is inside the fragment.
func JSONExpressible(e *Expr) bool {
	if e == nil {
		return false
	}
	switch e.K {
	case "str", "num", "bool", "null", "ref", "type":
		return true
	case "tmpl":
		for _, a := range e.A {
			if a.K != "str" && a.K != "ref" {
				return false
			}
		}
		return true
	case "list":
		for _, a := range e.A {
			if !JSONExpressible(a) {
				return false
			}
		}
		return true
	case "obj":
		for i, a := range e.A {
			if e.Keys[i].K != "str" && e.Keys[i].K != "kw" {
				return false
			}
			if !JSONExpressible(a) {
				return false
			}
		}
		return true
	}
	return false
}

func jsonExpr(e *Expr) any {
	switch e.K {
	case "str":
		return tmplEscape(e.S)
	case "num":
		return json.RawMessage(e.S)
	case "bool":
		return e.S == "true"
	case "null":
		return nil
	case "ref":
		return "${" + e.S + "}"
	case "type":
		return e.S // type expressions are written as strings in JSON
	case "tmpl":
		var b strings.Builder
		for _, a := range e.A {
			if a.K == "str" {
				b.WriteString(tmplEscape(a.S))
			} else {
				b.WriteString("${" + a.S + "}")
			}
		}
		return b.String()
	case "list":
		out := make([]any, 0, len(e.A))
		for _, a := range e.A {
			out = append(out, jsonExpr(a))
		}
		return out
	case "obj":
		o := newObj()
		for i, a := range e.A {
			o.set(e.Keys[i].S, jsonExpr(a))
		}
		return o
	}
	return nil
}

// ItemsJSONExpressible: every attribute value is in the fragment, no attribute
// is written twice in a body and block labels are plain.
func ItemsJSONExpressible(items []*Item) bool {
	seen := map[string]bool{}
	for _, it := range items {
		if it.Attr != nil {
			if seen[it.Attr.Name] || !JSONExpressible(it.Attr.Expr) {
				return false
			}
			seen[it.Attr.Name] = true
		}
		if it.Block != nil && !ItemsJSONExpressible(it.Block.Body) {
			return false
		}
	}
	// a name used both as attribute and block type cannot be written in JSON
	for _, it := range items {
		if it.Block != nil && seen[it.Block.Type] {
			return false
		}
	}
	return true
}

func jsonBody(items []*Item) *jsonObj {
	o := newObj()
	// blocks grouped by type, keeping first-appearance order
	type group struct {
		blocks []*BlockItem
	}
	groups := map[string]*group{}
	var order []string
	for _, it := range items {
		switch {
		case it.Attr != nil:
			o.set(it.Attr.Name, jsonExpr(it.Attr.Expr))
		case it.Block != nil:
			g, ok := groups[it.Block.Type]
			if !ok {
				g = &group{}
				groups[it.Block.Type] = g
				order = append(order, it.Block.Type)
			}
			g.blocks = append(g.blocks, it.Block)
		}
	}
	for _, typ := range order {
		g := groups[typ]
		// every block as its own array element: {"type":[{"l1":{"l2":{body}}}, ...]}
		arr := make([]any, 0, len(g.blocks))
		for _, b := range g.blocks {
			var v any = jsonBody(b.Body)
			for i := len(b.Labels) - 1; i >= 0; i-- {
				w := newObj()
				w.set(b.Labels[i], v)
				v = w
			}
			arr = append(arr, v)
		}
		o.set(typ, arr)
	}
	return o
}

func init() {
	RenderJSONText = func(items []*Item) string {
		b, err := json.MarshalIndent(jsonBody(items), "", "  ")
		if err != nil {
			return "{}"
		}
		return string(b) + "\n"
	}
	RenderJSONMinified = func(items []*Item) string {
		b, err := json.Marshal(jsonBody(items))
		if err != nil {
			return "{}"
		}
		return string(b)
	}
}

// SortedKeys is a helper for deterministic iteration.
func SortedKeys(m map[string]bool) []string {
	out := make([]string, 0, len(m))
	for k := range m { // maporder:ok (sorted below)
		out = append(out, k)
	}
	sort.Strings(out)
	return out
}
