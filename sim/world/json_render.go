package world

import (
	"encoding/json"
	"regexp"
	"sort"
	"strings"
)

// JSON rendering of the fragment both syntaxes can express: blocks with labels,
// literal values, lists / objects, references (as "${...}" templates) and
// string templates.

type jsonObj struct {
	keys []string
	vals map[string]any
}

func newObj() *jsonObj { return &jsonObj{vals: map[string]any{}} }

func (o *jsonObj) set(k string, v any) {
	if _, ok := o.vals[k]; !ok {
		o.keys = append(o.keys, k)
	}
	o.vals[k] = v
}

func (o *jsonObj) MarshalJSON() ([]byte, error) {
	var b strings.Builder
	b.WriteByte('{')
	for i, k := range o.keys {
		if i > 0 {
			b.WriteByte(',')
		}
		kb, _ := json.Marshal(k)
		b.Write(kb)
		b.WriteByte(':')
		vb, err := json.Marshal(o.vals[k])
		if err != nil {
			return nil, err
		}
		b.Write(vb)
	}
	b.WriteByte('}')
	return []byte(b.String()), nil
}

func tmplEscape(s string) string {
	s = strings.ReplaceAll(s, "${", "$${")
	s = strings.ReplaceAll(s, "%{", "%%{")
	return s
}

// JSONExpressible reports whether an expression is inside the fragment.
func JSONExpressible(e *Expr) bool {
	if e == nil {
		return false
	}
	switch e.K {
	case "str", "num", "bool", "null", "ref", "type", "kw":
		return true
	case "raw":
		_, ok := rawLiteralJSON(e.S)
		return ok
	case "tmpl":
		for _, a := range e.A {
			if a.K != "str" && a.K != "ref" {
				return false
			}
		}
		return true
	case "list":
		for _, a := range e.A {
			if !JSONExpressible(a) {
				return false
			}
		}
		return true
	case "obj":
		for i, a := range e.A {
			if e.Keys[i].K != "str" && e.Keys[i].K != "kw" {
				return false
			}
			if !JSONExpressible(a) {
				return false
			}
		}
		return true
	}
	return false
}

var rawObjRe = regexp.MustCompile(`^\{\s*([A-Za-z_][A-Za-z0-9_]*)\s*=\s*("[^"\\$%]*")\s*\}$`)

// rawLiteralJSON translates the literal source texts the generator uses for
// fixed values ("s3", 42, true, ["a","b"], { k = "v" }) to JSON values.
func rawLiteralJSON(src string) (any, bool) {
	src = strings.TrimSpace(src)
	if strings.Contains(src, "${") || strings.Contains(src, "%{") {
		return nil, false
	}
	if m := rawObjRe.FindStringSubmatch(src); m != nil {
		o := newObj()
		var v string
		if json.Unmarshal([]byte(m[2]), &v) != nil {
			return nil, false
		}
		o.set(m[1], v)
		return o, true
	}
	switch src {
	case "true":
		return true, true
	case "false":
		return false, true
	}
	// strings (same escapes as JSON for what the generator emits), numbers,
	// lists of those
	if src == "" || !strings.ContainsAny(src[:1], "\"[0123456789-") {
		return nil, false
	}
	dec := json.NewDecoder(strings.NewReader(src))
	dec.UseNumber()
	var v any
	if err := dec.Decode(&v); err != nil || dec.More() {
		return nil, false
	}
	return v, true
}

// RawLiteralString returns the value of a fixed-value source text that is a string.
func RawLiteralString(src string) (string, bool) {
	v, ok := rawLiteralJSON(src)
	if !ok {
		return "", false
	}
	s, ok := v.(string)
	return s, ok
}

func jsonExpr(e *Expr) any {
	switch e.K {
	case "str":
		return tmplEscape(e.S)
	case "num":
		return json.RawMessage(e.S)
	case "bool":
		return e.S == "true"
	case "null":
		return nil
	case "ref":
		return "${" + e.S + "}"
	case "type", "kw":
		return e.S // type expressions and keywords are written as strings in JSON
	case "raw":
		v, _ := rawLiteralJSON(e.S)
		return v
	case "tmpl":
		var b strings.Builder
		for _, a := range e.A {
			if a.K == "str" {
				b.WriteString(tmplEscape(a.S))
			} else {
				b.WriteString("${" + a.S + "}")
			}
		}
		return b.String()
	case "list":
		out := make([]any, 0, len(e.A))
		for _, a := range e.A {
			out = append(out, jsonExpr(a))
		}
		return out
	case "obj":
		o := newObj()
		for i, a := range e.A {
			o.set(e.Keys[i].S, jsonExpr(a))
		}
		return o
	}
	return nil
}

// ItemsJSONExpressible: every attribute value is in the fragment, no attribute
// is written twice in a body and block labels are plain.
func ItemsJSONExpressible(items []*Item) bool {
	seen := map[string]bool{}
	for _, it := range items {
		if it.Attr != nil {
			if seen[it.Attr.Name] || !JSONExpressible(it.Attr.Expr) {
				return false
			}
			seen[it.Attr.Name] = true
		}
		if it.Block != nil && !ItemsJSONExpressible(it.Block.Body) {
			return false
		}
	}
	// a name used both as attribute and block type cannot be written in JSON
	for _, it := range items {
		if it.Block != nil && seen[it.Block.Type] {
			return false
		}
	}
	return true
}

// WhyNotJSON names the first reason ItemsJSONExpressible fails (reach probe).
func WhyNotJSON(items []*Item) string {
	seen := map[string]bool{}
	for _, it := range items {
		if it.Attr != nil {
			if seen[it.Attr.Name] {
				return "duplicate_attr"
			}
			if !JSONExpressible(it.Attr.Expr) {
				why := "expr"
				it.Attr.Expr.Walk(func(e *Expr) {
					if why == "expr" && !JSONExpressible(e) {
						why = "expr_" + e.K
					}
				})
				// innermost reason: last failing sub-expression kind
				it.Attr.Expr.Walk(func(e *Expr) {
					if !JSONExpressible(e) {
						leaf := true
						for _, a := range e.A {
							if !JSONExpressible(a) {
								leaf = false
							}
						}
						if leaf {
							why = "expr_" + e.K
						}
					}
				})
				return why
			}
			seen[it.Attr.Name] = true
		}
		if it.Block != nil {
			if w := WhyNotJSON(it.Block.Body); w != "" {
				return w
			}
		}
	}
	for _, it := range items {
		if it.Block != nil && seen[it.Block.Type] {
			return "attr_block_clash"
		}
	}
	return ""
}

func jsonBody(items []*Item) *jsonObj {
	o := newObj()
	// blocks grouped by type, keeping first-appearance order
	type group struct {
		blocks []*BlockItem
	}
	groups := map[string]*group{}
	var order []string
	for _, it := range items {
		switch {
		case it.Attr != nil:
			o.set(it.Attr.Name, jsonExpr(it.Attr.Expr))
		case it.Block != nil:
			g, ok := groups[it.Block.Type]
			if !ok {
				g = &group{}
				groups[it.Block.Type] = g
				order = append(order, it.Block.Type)
			}
			g.blocks = append(g.blocks, it.Block)
		}
	}
	for _, typ := range order {
		g := groups[typ]
		// every block as its own array element: {"type":[{"l1":{"l2":{body}}}, ...]}
		arr := make([]any, 0, len(g.blocks))
		for _, b := range g.blocks {
			var v any = jsonBody(b.Body)
			for i := len(b.Labels) - 1; i >= 0; i-- {
				w := newObj()
				w.set(b.Labels[i], v)
				v = w
			}
			arr = append(arr, v)
		}
		o.set(typ, arr)
	}
	return o
}

func init() {
	RenderJSONText = func(items []*Item) string {
		b, err := json.MarshalIndent(jsonBody(items), "", "  ")
		if err != nil {
			return "{}"
		}
		return string(b) + "\n"
	}
	RenderJSONMinified = func(items []*Item) string {
		b, err := json.Marshal(jsonBody(items))
		if err != nil {
			return "{}"
		}
		return string(b)
	}
}

// SortedKeys is a helper for deterministic iteration.
func SortedKeys(m map[string]bool) []string {
	out := make([]string, 0, len(m))
	for k := range m { // maporder:ok (sorted below)
		out = append(out, k)
	}
	sort.Strings(out)
	return out
}
