package world

import (
	"fmt"
	"math/rand/v2"
	"sort"
	"strings"
)

// Profile tunes the generator (swarm style: drawn per scenario).
type Profile struct {
	Paths         int     // 1..4
	FilesPer      int     // files per path
	MaxDepth      int     // block nesting
	MaxAttrs      int     // attributes per body (upper bound)
	BigBody       bool    // one body with 13..40 same-shape addressable attributes
	ManyTargets   int     // >0: generate this many addressable declarations (limit tests)
	Hooks         bool    // completion hooks on string attributes
	Multibyte     bool    // multi-byte characters in strings/comments
	Layout        bool    // layout noise
	Violations    float64 // probability of injecting a non-conforming item
	Terraformy    bool    // include the terraform-like block zoo
	CrossPath     bool    // path origins / implied origins between paths
	JSONTwin      bool    // restrict to the fragment expressible in JSON
	Functions     int     // number of functions
	ExprDepth     int
	DepBodies     bool
	Ext           bool
	Odd           bool    // schemas that are legal but unusual (no body, clashes, nested targetables)
	NoSchema      bool    // path context without a schema
	JSONFiles     bool // (with JSONTwin) some files of the world are written in HCL JSON
	Typing        bool // some top-level items are names still being typed
	ManyBlocks    bool // long interleaved runs of nested blocks
	Builtins      bool // the server adds range-less built-in targets (path.module ...)
	DistinctNames bool    // no two paths hold a file of the same name
	SiblingLang   bool    // append a path with the directory of path 0 and another language id (terraform + terraform-vars)
	ClonePath     bool    // append a copy of path 0 under another directory (same files, same offsets)
	HalfTyped     float64 // probability that an any-expression is an unfinished piece of text (as left while typing)
}

type Gen struct {
	R    *rand.Rand
	P    Profile
	uniq int
	// known addresses the configuration declares (for writing references)
	addrs []string
	funcs []*FuncSpec
	// scopes in use
	scopes []string
	// the value just written for the attribute being declared
	lastExpr *Expr
	// addresses of the server's built-in targets
	builtins []string
}

func NewGen(seed uint64, stream uint64, p Profile) *Gen {
	return &Gen{R: rand.New(rand.NewPCG(seed, stream)), P: p, scopes: []string{"", "", "sc_a", "sc_b"}}
}

func (g *Gen) n(k int) int {
	if k <= 0 {
		return 0
	}
	return g.R.IntN(k)
}
func (g *Gen) chance(p float64) bool { return g.R.Float64() < p }
func (g *Gen) pick(ss []string) string {
	return ss[g.n(len(ss))]
}

var stems = []string{"na", "name", "nam", "names", "port", "path", "pool", "tags", "type_x", "ttl", "fo", "for_x", "co", "count_x", "dy", "dyn", "size", "mode", "zone", "arn", "id", "ids", "key", "keys", "val", "vals", "env", "region", "alias", "source", "version", "enabled", "items", "cfg", "opts", "rule", "rules"}

func (g *Gen) ident(used map[string]bool) string {
	for i := 0; i < 50; i++ {
		s := g.pick(stems)
		if g.P.Multibyte && g.chance(0.08) {
			s = g.pick([]string{"größe", "naïve", "ключ"})
		}
		if g.chance(0.3) {
			s += fmt.Sprintf("%d", g.n(4))
		}
		if !used[s] {
			used[s] = true
			return s
		}
	}
	g.uniq++
	s := fmt.Sprintf("u%d", g.uniq)
	used[s] = true
	return s
}

var primTypes = []string{"string", "number", "bool"}
var allTypes = []string{"string", "string", "number", "bool", "list(string)", "set(string)", "map(string)", "map(number)", "list(number)",
	"object({a=string,b=number})", "object({n=string,tags=map(string)})", "tuple([string,number])", "any", "list(any)", "map(any)", "list(object({k=string}))"}

func (g *Gen) typ() string {
	if g.chance(0.5) {
		return g.pick(primTypes)
	}
	return g.pick(allTypes)
}

func (g *Gen) desc() string {
	if g.chance(0.5) {
		g.uniq++
		return fmt.Sprintf("Doc %d **md**", g.uniq)
	}
	return ""
}

func (g *Gen) modsList() []string {
	// 0-3 modifiers: slices of length 3 get capacity 4 when appended one by
	// one, which is what aliasing bugs in modifier inheritance need
	if !g.chance(0.4) {
		return nil
	}
	pool := []string{"hcl-dependent", "tf-x", "tf-y", "tf-z", "tf-w"}
	n := 1 + g.n(3)
	var out []string
	for i := 0; i < n; i++ {
		m := pool[g.n(len(pool))]
		dup := false
		for _, x := range out {
			if x == m {
				dup = true
			}
		}
		if !dup {
			out = append(out, m)
		}
	}
	return out
}

// ---------------------------------------------------------------------------
// constraints

func (g *Gen) cons(depth int) *ConsSpec {
	k := g.n(100)
	if g.P.JSONTwin {
		// keywords, type declarations and fixed literal values are written as
		// bare words in native syntax; the both-syntax fragment leaves them out
		for (k >= 44 && k < 55) || k >= 93 {
			k = g.n(100)
		}
	}
	if depth >= 2 && k >= 55 {
		k = g.n(55)
	}
	switch {
	case k < 22:
		return &ConsSpec{K: "any", Type: g.typ(), SkipComplex: g.chance(0.1)}
	case k < 32:
		c := &ConsSpec{K: "ref"}
		switch g.n(4) {
		case 0:
			c.Type = g.typ()
		case 1:
			c.Scope = g.pick([]string{"sc_a", "sc_b"})
		case 2:
			c.Type = g.typ()
			c.Scope = g.pick([]string{"sc_a", "sc_b"})
		default:
			if g.P.JSONTwin {
				// a traversal that declares an address can only be written as a
				// legacy bare string in JSON: outside the compared fragment
				c.Scope = g.pick([]string{"sc_a", "sc_b"})
				break
			}
			c.AddrScope = g.pick([]string{"sc_a", "sc_b"})
			c.Name = "thing"
		}
		return c
	case k < 44:
		return &ConsSpec{K: "littype", Type: g.typ(), SkipComplex: g.chance(0.1)}
	case k < 50:
		vals := []ValSpec{{Expr: `"fixed"`}, {Expr: `"other"`}, {Expr: "42"}, {Expr: "true"}, {Expr: `["a","b"]`}, {Expr: `{ k = "v" }`}, {Expr: `"two\nlines\n"`}, {Expr: `{ x = "y" }`, Type: "map(string)"}}
		v := vals[g.n(len(vals))]
		return &ConsSpec{K: "litval", Val: &v, Desc: g.desc(), Depr: g.chance(0.1)}
	case k < 55:
		return &ConsSpec{K: "kw", Kw: g.pick([]string{"all", "none", "auto", "true_ish"}), Name: g.pick([]string{"", "kwname"}), Desc: g.desc()}
	case k < 59:
		return &ConsSpec{K: "typedecl"}
	case k < 67:
		return &ConsSpec{K: "list", Elem: g.consOrNil(depth + 1), Min: uint64(g.n(2)), Max: uint64(g.n(3)), Desc: g.desc()}
	case k < 72:
		return &ConsSpec{K: "set", Elem: g.consOrNil(depth + 1), Desc: g.desc()}
	case k < 77:
		n := 1 + g.n(3)
		c := &ConsSpec{K: "tuple"}
		for i := 0; i < n; i++ {
			c.Elems = append(c.Elems, g.cons(depth+1))
		}
		return c
	case k < 84:
		return &ConsSpec{K: "map", Elem: g.consOrNil(depth + 1), Name: g.pick([]string{"", "mapname"}), AllowInterp: g.chance(0.5), Desc: g.desc()}
	case k < 93:
		c := &ConsSpec{K: "object", Name: g.pick([]string{"", "objname"}), AllowInterp: g.chance(0.5), Desc: g.desc()}
		used := map[string]bool{}
		n := g.n(4)
		for i := 0; i < n; i++ {
			a := g.attr(g.ident(used), depth+1, false)
			a.DepKey, a.Addr, a.OriginFor, a.Hooks = false, nil, nil, nil
			c.Attrs = append(c.Attrs, a)
		}
		sort.SliceStable(c.Attrs, func(i, j int) bool { return c.Attrs[i].Name < c.Attrs[j].Name })
		if len(c.Attrs) >= 2 && g.chance(0.5) {
			// an optional attribute sorting before a required one (what a
			// pre-filled snippet leaves out must not use up tab stops)
			first, last := c.Attrs[0], c.Attrs[len(c.Attrs)-1]
			first.Req, first.Opt, first.Comp = false, true, false
			last.Req, last.Opt, last.Comp = true, false, false
		}
		return c
	default:
		n := 2 + g.n(2)
		c := &ConsSpec{K: "oneof"}
		for i := 0; i < n; i++ {
			c.Elems = append(c.Elems, g.cons(depth+1))
		}
		return c
	}
}

func (g *Gen) consOrNil(depth int) *ConsSpec {
	if g.P.Odd && g.chance(0.05) {
		return nil
	}
	return g.cons(depth)
}

func (g *Gen) attr(name string, depth int, top bool) *AttrSpec {
	a := &AttrSpec{Name: name, Cons: g.cons(depth), Desc: g.desc(), Mods: g.modsList()}
	switch g.n(10) {
	case 0, 1, 2:
		a.Req = true
	case 3:
		a.Comp = true
	case 4:
		a.Opt, a.Comp = true, true
	default:
		a.Opt = true
	}
	a.Depr = g.chance(0.1)
	a.Sens = g.chance(0.1)
	a.WriteOnly = g.chance(0.05)
	if g.P.Hooks && g.chance(0.35) {
		a.Cons = &ConsSpec{K: g.pick([]string{"any", "littype"}), Type: "string"}
		a.Hooks = []string{g.pick([]string{"h1", "h2", "hmissing"})}
		if g.chance(0.4) {
			a.Hooks = g.pick2([]string{"h1", "h2"}, []string{"h2", "h1"})
		}
	}
	if top && g.chance(0.3) {
		st := []StepSpec{{K: "static", Name: g.pick([]string{"attr", "top"})}, {K: "attrname"}}
		if g.chance(0.2) {
			st = []StepSpec{{K: "static", Name: name + "_addr"}}
		}
		a.Addr = &AttrAddrSpec{Steps: st, Scope: g.pick(g.scopes), AsExprType: g.chance(0.6), Name: g.pick([]string{"", "friendly"})}
		a.Addr.AsRef = !a.Addr.AsExprType || g.chance(0.4)
	}
	return a
}

// ---------------------------------------------------------------------------
// bodies and blocks

func (g *Gen) body(depth int, top bool) *BodySpec {
	b := &BodySpec{Desc: g.desc()}
	used := map[string]bool{}
	if g.chance(0.08) {
		b.Any = g.attr("any", 1, false)
		b.Any.Req, b.Any.Opt, b.Any.Comp = false, true, false
		if g.chance(0.5) {
			b.Any.Addr = &AttrAddrSpec{Steps: []StepSpec{{K: "static", Name: "local"}, {K: "attrname"}}, Scope: g.pick(g.scopes), AsExprType: true}
		}
	} else {
		n := g.n(g.P.MaxAttrs + 1)
		for i := 0; i < n; i++ {
			b.Attrs = append(b.Attrs, g.attr(g.ident(used), 0, top || g.chance(0.3)))
		}
	}
	if depth < g.P.MaxDepth {
		n := g.n(3)
		if top {
			n = 1 + g.n(3)
		}
		for i := 0; i < n; i++ {
			name := g.ident(used)
			if g.P.Odd && g.chance(0.1) && len(b.Attrs) > 0 {
				name = b.Attrs[0].Name // attribute/block name clash
			}
			if b.Block(name) != nil {
				continue
			}
			b.Blocks = append(b.Blocks, g.block(name, depth+1))
		}
	}
	if g.P.Ext && g.chance(0.4) {
		b.Ext = &ExtSpec{Count: g.chance(0.5), ForEach: g.chance(0.5), Dynamic: g.chance(0.5), SelfRefs: g.chance(0.4)}
	}
	if g.chance(0.15) {
		b.HoverURL = g.pick([]string{"https://example.com/docs/x", "https://example.com/p?q=1", "::bad url"})
	}
	if g.chance(0.15) {
		b.DocsLink = &DocsLinkSpec{URL: g.pick([]string{"https://example.com/docs/y", "https://example.com/z?a=b"}), Tooltip: "docs"}
	}
	if g.chance(0.2) {
		b.Detail = "detail"
	}
	b.SortSpec()
	return b
}

func (g *Gen) labelValues() []string {
	if g.P.Odd {
		// legal label values a hand-written encoder gets wrong
		return []string{"aws_x", "aws_y", "gcp_z", "na", "name", "a&b", "x<y>"}
	}
	return []string{"aws_x", "aws_y", "gcp_z", "na", "name"}
}

func (g *Gen) block(typ string, depth int) *BlockSpec {
	b := &BlockSpec{Type: typ, Desc: g.desc(), Mods: g.modsList(), Depr: g.chance(0.08)}
	nl := g.n(3)
	for i := 0; i < nl; i++ {
		b.Labels = append(b.Labels, &LabelSpec{Name: g.pick([]string{"type", "name", "kind"}), Desc: g.desc(), Mods: g.modsList()})
	}
	b.BType = g.pick([]string{"", "", "list", "set", "map", "object"})
	if b.BType == "map" && nl == 0 {
		if g.P.Odd && g.chance(0.3) {
			// legal for the schema package; map-typed block without labels
		} else {
			b.Labels = append(b.Labels, &LabelSpec{Name: "key"})
			nl = 1
		}
	}
	if g.chance(0.3) {
		b.Min = uint64(g.n(3))
	}
	if g.chance(0.3) {
		b.Max = b.Min + uint64(g.n(3))
		if b.Max == 0 {
			b.Max = 1
		}
	}
	if !(g.P.Odd && g.chance(0.08)) {
		b.Body = g.body(depth, false)
	}
	// dependent bodies
	if g.P.DepBodies && g.chance(0.5) && b.Body != nil {
		g.depBodies(b, depth)
	}
	// address
	if g.chance(0.6) {
		g.blockAddr(b)
	}
	if b.Body != nil && g.P.Odd && g.chance(0.15) {
		t := &TargetableSpec{Addr: "tgt." + typ, Scope: g.pick(g.scopes), Type: g.typ(), Name: "targetable"}
		if g.chance(0.5) {
			t.Nested = []*TargetableSpec{{Addr: "tgt." + typ + ".inner", Type: "string"}}
		}
		b.Body.TargetableAs = append(b.Body.TargetableAs, t)
	}
	return b
}

func (g *Gen) depBodies(b *BlockSpec, depth int) {
	var keyLabels []int
	for i, l := range b.Labels {
		if g.chance(0.7) {
			l.DepKey = true
			l.Completable = g.chance(0.8)
			keyLabels = append(keyLabels, i)
		}
	}
	var keyAttrs []*AttrSpec
	if g.chance(0.45) || len(keyLabels) == 0 {
		used := map[string]bool{}
		for _, a := range b.Body.Attrs {
			used[a.Name] = true
		}
		n := 1 + g.n(2)
		for i := 0; i < n; i++ {
			a := &AttrSpec{Name: g.ident(used), Opt: true, DepKey: true, Desc: g.desc()}
			switch g.n(4) {
			case 0:
				a.Cons = &ConsSpec{K: "littype", Type: "string"}
			case 1:
				a.Cons = &ConsSpec{K: "any", Type: "string"}
			case 2:
				a.Cons = &ConsSpec{K: "littype", Type: g.pick([]string{"number", "bool"})}
			default:
				a.Cons = &ConsSpec{K: "ref", Scope: "sc_a"}
			}
			if g.chance(0.3) && a.Cons.K != "ref" {
				a.Default = g.keyVal(a)
			}
			b.Body.Attrs = append(b.Body.Attrs, a)
			keyAttrs = append(keyAttrs, a)
		}
		b.Body.SortSpec()
	}
	nd := 1 + g.n(3)
	seen := map[string]bool{}
	for i := 0; i < nd; i++ {
		d := &DepBodySpec{}
		for _, li := range keyLabels {
			d.Labels = append(d.Labels, LabelDepSpec{Index: li, Value: g.pick(g.labelValues())})
		}
		for _, a := range keyAttrs {
			if g.chance(0.8) {
				ad := AttrDepSpec{Name: a.Name}
				if a.Cons.K == "ref" {
					ad.Addr = g.pick([]string{"prov.one", "prov.two"})
				} else if a.Default != nil && g.chance(0.5) {
					ad.Static = a.Default
				} else {
					ad.Static = g.keyVal(a)
				}
				d.Attrs = append(d.Attrs, ad)
			}
		}
		if len(d.Labels) == 0 && len(d.Attrs) == 0 {
			continue
		}
		// permute listing order (canonicity, C16)
		g.R.Shuffle(len(d.Labels), func(i, j int) { d.Labels[i], d.Labels[j] = d.Labels[j], d.Labels[i] })
		g.R.Shuffle(len(d.Attrs), func(i, j int) { d.Attrs[i], d.Attrs[j] = d.Attrs[j], d.Attrs[i] })
		key := depKeyString(d)
		if seen[key] {
			continue
		}
		seen[key] = true
		d.Body = g.body(depth, false)
		d.Body.Detail = g.pick([]string{"", "dep detail"})
		if g.chance(0.3) {
			d.Body.DocsLink = &DocsLinkSpec{URL: "https://example.com/dep/" + fmt.Sprint(i), Tooltip: "dep"}
		}
		if g.chance(0.2) {
			d.Body.HoverURL = "https://example.com/hover/" + fmt.Sprint(i)
		}
		if g.P.Odd && g.chance(0.25) {
			// the dependent body makes the block targetable as a whole, with
			// nested parts listed in no particular order
			root := fmt.Sprintf("dtgt.%s%d", b.Type, i)
			d.Body.TargetableAs = append(d.Body.TargetableAs, &TargetableSpec{Addr: root, Scope: g.pick(g.scopes), Type: "object({zone=string,id=string,arn=string})", Name: "dep targetable",
				Nested: []*TargetableSpec{{Addr: root + ".zone", Type: "string"}, {Addr: root + ".id", Type: "string"}, {Addr: root + ".arn", Type: "string"}}})
		}
		// second level: a dependency-key attribute inside the dependent body
		if g.chance(0.25) && len(d.Labels) > 0 {
			used := map[string]bool{}
			for _, a := range d.Body.Attrs {
				used[a.Name] = true
			}
			ka := &AttrSpec{Name: g.ident(used), Opt: true, DepKey: true, Cons: &ConsSpec{K: "littype", Type: "string"}}
			d.Body.Attrs = append(d.Body.Attrs, ka)
			d.Body.SortSpec()
			d2 := &DepBodySpec{Labels: append([]LabelDepSpec(nil), d.Labels...), Attrs: append([]AttrDepSpec(nil), d.Attrs...)}
			d2.Attrs = append(d2.Attrs, AttrDepSpec{Name: ka.Name, Static: &ValSpec{Expr: `"special"`}})
			d2.Body = g.body(depth, false)
			// the second-level body must itself carry the key attribute
			d2.Body.Attrs = append(d2.Body.Attrs, &AttrSpec{Name: ka.Name, Opt: true, DepKey: true, Cons: &ConsSpec{K: "littype", Type: "string"}})
			d2.Body.SortSpec()
			dedupAttrs(d2.Body)
			if !seen[depKeyString(d2)] {
				seen[depKeyString(d2)] = true
				b.Dep = append(b.Dep, d2)
			}
		}
		b.Dep = append(b.Dep, d)
	}
}

func dedupAttrs(b *BodySpec) {
	seen := map[string]bool{}
	out := b.Attrs[:0]
	for _, a := range b.Attrs {
		if !seen[a.Name] {
			seen[a.Name] = true
			out = append(out, a)
		}
	}
	b.Attrs = out
}

func depKeyString(d *DepBodySpec) string {
	var parts []string
	for _, l := range d.Labels {
		parts = append(parts, fmt.Sprintf("l%d=%s", l.Index, l.Value))
	}
	for _, a := range d.Attrs {
		s := a.Addr
		if a.Static != nil {
			s = a.Static.Expr
		}
		parts = append(parts, fmt.Sprintf("a%s=%s", a.Name, s))
	}
	sort.Strings(parts)
	return strings.Join(parts, ";")
}

func (g *Gen) keyVal(a *AttrSpec) *ValSpec {
	switch a.Cons.Type {
	case "number":
		return &ValSpec{Expr: g.pick([]string{"1", "2", "42"})}
	case "bool":
		return &ValSpec{Expr: g.pick([]string{"true", "false"})}
	}
	return &ValSpec{Expr: g.pick([]string{`"s3"`, `"local"`, `"special"`})}
}

func (g *Gen) blockAddr(b *BlockSpec) {
	a := &BlockAddrSpec{Scope: g.pick(g.scopes), Name: g.pick([]string{"", "blk"})}
	// steps
	a.Steps = append(a.Steps, StepSpec{K: "static", Name: b.Type})
	for i := range b.Labels {
		if g.chance(0.8) {
			a.Steps = append(a.Steps, StepSpec{K: "label", Index: uint(i)})
		}
	}
	if b.Body != nil && g.chance(0.2) {
		// attribute-value step on a string attribute
		for _, at := range b.Body.Attrs {
			if at.Cons != nil && (at.Cons.K == "littype" || at.Cons.K == "any") && at.Cons.Type == "string" {
				a.Steps = append(a.Steps, StepSpec{K: "attrvalue", Name: at.Name, Optional: g.chance(0.5)})
				break
			}
		}
	}
	if g.chance(0.1) && len(b.Labels) > 0 {
		// label-rooted address (like resources)
		a.Steps = a.Steps[1:]
	}
	switch g.n(6) {
	case 0:
		a.AsRef = true
	case 1:
		a.BodyAsData = true
		a.InferBody = g.chance(0.7)
		a.BodySelfRef = a.InferBody && g.chance(0.4)
	case 2:
		if len(b.Dep) > 0 {
			a.DepBodyAsData = true
			a.InferDepBody = g.chance(0.8)
			a.DepBodySelfRef = a.InferDepBody && g.chance(0.5)
			a.BodyAsData = g.chance(0.3)
			a.InferBody = a.BodyAsData && g.chance(0.5)
		} else {
			a.AsRef = true
		}
	case 3:
		// as type of a type-declaration attribute
		if b.Body != nil {
			name := "type"
			if at := b.Body.Attr(name); at == nil {
				b.Body.Attrs = append(b.Body.Attrs, &AttrSpec{Name: name, Opt: true, Cons: &ConsSpec{K: "typedecl"}})
				b.Body.SortSpec()
			} else {
				at.Cons = &ConsSpec{K: "typedecl"}
				at.DepKey = false
			}
			a.AsTypeOf = name
			if g.chance(0.2) {
				a.AsTypeOf = "-"
			}
		} else {
			a.AsRef = true
		}
	case 4:
		a.AsRef = true
		a.BodyAsData = true
		a.InferBody = true
		a.UnknownNested = g.chance(0.5)
	default:
		a.AsRef = true
		a.UnknownNested = g.chance(0.3)
	}
	b.Addr = a
}

// ---------------------------------------------------------------------------
// functions

func (g *Gen) pick2(a, b []string) []string {
	if g.chance(0.5) {
		return a
	}
	return b
}

func (g *Gen) functions() []*FuncSpec {
	base := []*FuncSpec{
		{Name: "lower", Params: []ParamSpec{{Name: "str", Type: "string"}}, Return: "string", Desc: "lowercase"},
		{Name: "length", Params: []ParamSpec{{Name: "value", Type: "any"}}, Return: "number"},
		{Name: "join", Params: []ParamSpec{{Name: "sep", Type: "string"}}, VarParam: &ParamSpec{Name: "lists", Type: "list(string)"}, Return: "string"},
		{Name: "tolist", Params: []ParamSpec{{Name: "v", Type: "any"}}, Return: "list(any)"},
		{Name: "now", Return: "string"},
		{Name: "element", Params: []ParamSpec{{Name: "list", Type: "list(any)"}, {Name: "index", Type: "number"}}, Return: "any"},
		{Name: "max", VarParam: &ParamSpec{Name: "numbers", Type: "number"}, Return: "number"},
		{Name: "provider::aws::arn_parse", Params: []ParamSpec{{Name: "arn", Type: "string"}}, Return: "object({a=string,b=number})"},
		{Name: "merge", VarParam: &ParamSpec{Name: "maps", Type: "any"}, Return: "any"},
		{Name: "tomap", Params: []ParamSpec{{Name: "v", Type: "any"}}, Return: "map(any)"},
		{Name: "lookup", Params: []ParamSpec{{Name: "m", Type: "any"}, {Name: "k", Type: "string"}}, VarParam: &ParamSpec{Name: "default", Type: "any"}, Return: "any"},
	}
	n := g.P.Functions
	if n > len(base) {
		n = len(base)
	}
	g.R.Shuffle(len(base), func(i, j int) { base[i], base[j] = base[j], base[i] })
	out := base[:n]
	sort.SliceStable(out, func(i, j int) bool { return out[i].Name < out[j].Name })
	return out
}
