package world

import (
	"fmt"
	"sort"

	"github.com/hashicorp/hcl-lang/lang"
	"github.com/hashicorp/hcl-lang/schema"
	"github.com/hashicorp/hcl-lang/validator"
	"github.com/hashicorp/hcl/v2"
	"github.com/hashicorp/hcl/v2/ext/typeexpr"
	"github.com/hashicorp/hcl/v2/hclsyntax"
	"github.com/zclconf/go-cty/cty"
	"github.com/zclconf/go-cty/cty/convert"
	"github.com/zclconf/go-cty/cty/function"
)

// ParseType parses an HCL type expression; "" is cty.NilType.
func ParseType(s string) cty.Type {
	if s == "" {
		return cty.NilType
	}
	expr, diags := hclsyntax.ParseExpression([]byte(s), "type", hcl.InitialPos)
	if diags.HasErrors() {
		panic(fmt.Sprintf("world: bad type %q: %s", s, diags))
	}
	ty, diags := typeexpr.TypeConstraint(expr)
	if diags.HasErrors() {
		panic(fmt.Sprintf("world: bad type %q: %s", s, diags))
	}
	return ty
}

// TypeString renders a cty.Type as an HCL type expression (inverse of ParseType).
func TypeString(t cty.Type) string {
	if t == cty.NilType {
		return ""
	}
	return typeexpr.TypeString(t)
}

func ParseVal(v *ValSpec) cty.Value {
	if v == nil {
		return cty.NilVal
	}
	expr, diags := hclsyntax.ParseExpression([]byte(v.Expr), "val", hcl.InitialPos)
	if diags.HasErrors() {
		panic(fmt.Sprintf("world: bad value %q: %s", v.Expr, diags))
	}
	val, diags := expr.Value(nil)
	if diags.HasErrors() {
		panic(fmt.Sprintf("world: bad value %q: %s", v.Expr, diags))
	}
	if v.Type != "" {
		c, err := convert.Convert(val, ParseType(v.Type))
		if err != nil {
			panic(fmt.Sprintf("world: value %q does not convert to %s: %s", v.Expr, v.Type, err))
		}
		val = c
	}
	return val
}

func ParseAddr(s string) lang.Address {
	if s == "" {
		return nil
	}
	tr, diags := hclsyntax.ParseTraversalAbs([]byte(s), "addr", hcl.InitialPos)
	if diags.HasErrors() {
		panic(fmt.Sprintf("world: bad address %q: %s", s, diags))
	}
	a, err := lang.TraversalToAddress(tr)
	if err != nil {
		panic(err)
	}
	return a
}

func md(s string) lang.MarkupContent {
	if s == "" {
		return lang.MarkupContent{}
	}
	return lang.Markdown(s)
}

func mods(m []string) lang.SemanticTokenModifiers {
	if m == nil {
		return nil
	}
	out := make(lang.SemanticTokenModifiers, len(m))
	for i, s := range m {
		out[i] = lang.SemanticTokenModifier(s)
	}
	return out
}

func steps(ss []StepSpec) schema.Address {
	if ss == nil {
		return nil
	}
	out := make(schema.Address, len(ss))
	for i, s := range ss {
		switch s.K {
		case "static":
			out[i] = schema.StaticStep{Name: s.Name}
		case "label":
			out[i] = schema.LabelStep{Index: s.Index}
		case "attrname":
			out[i] = schema.AttrNameStep{}
		case "attrvalue":
			out[i] = schema.AttrValueStep{Name: s.Name, IsOptional: s.Optional}
		default:
			panic("world: bad step " + s.K)
		}
	}
	return out
}

func CompileCons(c *ConsSpec) schema.Constraint {
	if c == nil {
		return nil
	}
	switch c.K {
	case "any":
		return schema.AnyExpression{OfType: ParseType(c.Type), SkipLiteralComplexTypes: c.SkipComplex}
	case "ref":
		r := schema.Reference{OfScopeId: lang.ScopeId(c.Scope), OfType: ParseType(c.Type), Name: c.Name}
		if c.AddrScope != "" {
			r.Address = &schema.ReferenceAddrSchema{ScopeId: lang.ScopeId(c.AddrScope)}
		}
		return r
	case "littype":
		return schema.LiteralType{Type: ParseType(c.Type), SkipComplexTypes: c.SkipComplex}
	case "litval":
		return schema.LiteralValue{Value: ParseVal(c.Val), IsDeprecated: c.Depr, Description: md(c.Desc)}
	case "kw":
		return schema.Keyword{Keyword: c.Kw, Name: c.Name, Description: md(c.Desc)}
	case "typedecl":
		return schema.TypeDeclaration{}
	case "list":
		return schema.List{Elem: CompileCons(c.Elem), Description: md(c.Desc), MinItems: c.Min, MaxItems: c.Max}
	case "set":
		return schema.Set{Elem: CompileCons(c.Elem), Description: md(c.Desc), MinItems: c.Min, MaxItems: c.Max}
	case "tuple":
		es := make([]schema.Constraint, len(c.Elems))
		for i, e := range c.Elems {
			es[i] = CompileCons(e)
		}
		return schema.Tuple{Elems: es, Description: md(c.Desc)}
	case "map":
		return schema.Map{Elem: CompileCons(c.Elem), Name: c.Name, Description: md(c.Desc), MinItems: c.Min, MaxItems: c.Max, AllowInterpolatedKeys: c.AllowInterp}
	case "object":
		attrs := make(schema.ObjectAttributes, len(c.Attrs))
		for _, a := range c.Attrs {
			attrs[a.Name] = CompileAttr(a)
		}
		return schema.Object{Attributes: attrs, Name: c.Name, Description: md(c.Desc), AllowInterpolatedKeys: c.AllowInterp}
	case "oneof":
		o := make(schema.OneOf, len(c.Elems))
		for i, e := range c.Elems {
			o[i] = CompileCons(e)
		}
		return o
	}
	panic("world: bad constraint kind " + c.K)
}

func CompileAttr(a *AttrSpec) *schema.AttributeSchema {
	if a == nil {
		return nil
	}
	as := &schema.AttributeSchema{
		Description:            md(a.Desc),
		IsRequired:             a.Req,
		IsOptional:             a.Opt,
		IsComputed:             a.Comp,
		IsDeprecated:           a.Depr,
		IsSensitive:            a.Sens,
		IsWriteOnly:            a.WriteOnly,
		IsDepKey:               a.DepKey,
		Constraint:             CompileCons(a.Cons),
		SemanticTokenModifiers: mods(a.Mods),
	}
	if a.Default != nil {
		as.DefaultValue = schema.DefaultValue{Value: ParseVal(a.Default)}
	}
	if a.Addr != nil {
		as.Address = &schema.AttributeAddrSchema{
			Steps:        steps(a.Addr.Steps),
			FriendlyName: a.Addr.Name,
			ScopeId:      lang.ScopeId(a.Addr.Scope),
			AsExprType:   a.Addr.AsExprType,
			AsReference:  a.Addr.AsRef,
		}
	}
	if a.OriginFor != nil {
		as.OriginForTarget = &schema.PathTarget{
			Address: steps(a.OriginFor.Steps),
			Path:    lang.Path{Path: a.OriginFor.Path, LanguageID: a.OriginFor.Lang},
			Constraints: schema.Constraints{
				ScopeId: lang.ScopeId(a.OriginFor.Scope),
				Type:    ParseType(a.OriginFor.Type),
			},
		}
	}
	for _, h := range a.Hooks {
		as.CompletionHooks = append(as.CompletionHooks, lang.CompletionHook{Name: h})
	}
	return as
}

func compileTargetable(t *TargetableSpec) *schema.Targetable {
	tb := &schema.Targetable{
		Address:      ParseAddr(t.Addr),
		ScopeId:      lang.ScopeId(t.Scope),
		AsType:       ParseType(t.Type),
		FriendlyName: t.Name,
		Description:  md(t.Desc),
	}
	for _, n := range t.Nested {
		tb.NestedTargetables = append(tb.NestedTargetables, compileTargetable(n))
	}
	return tb
}

func CompileBody(b *BodySpec) *schema.BodySchema {
	if b == nil {
		return nil
	}
	bs := &schema.BodySchema{
		IsDeprecated: b.Deprecated,
		Detail:       b.Detail,
		Description:  md(b.Desc),
		HoverURL:     b.HoverURL,
		AnyAttribute: CompileAttr(b.Any),
	}
	if b.Attrs != nil {
		bs.Attributes = make(map[string]*schema.AttributeSchema, len(b.Attrs))
		for _, a := range b.Attrs {
			bs.Attributes[a.Name] = CompileAttr(a)
		}
	}
	if b.Blocks != nil {
		bs.Blocks = make(map[string]*schema.BlockSchema, len(b.Blocks))
		for _, bl := range b.Blocks {
			bs.Blocks[bl.Type] = CompileBlock(bl)
		}
	}
	if b.Ext != nil {
		bs.Extensions = &schema.BodyExtensions{Count: b.Ext.Count, ForEach: b.Ext.ForEach, DynamicBlocks: b.Ext.Dynamic, SelfRefs: b.Ext.SelfRefs}
	}
	if b.DocsLink != nil {
		bs.DocsLink = &schema.DocsLink{URL: b.DocsLink.URL, Tooltip: b.DocsLink.Tooltip}
	}
	if b.Targets != nil {
		t := b.Targets
		bs.Targets = &schema.Target{
			Path: lang.Path{Path: t.Path, LanguageID: t.Lang},
			Range: hcl.Range{Filename: t.File,
				Start: hcl.Pos{Line: t.Start[0], Column: t.Start[1], Byte: t.Start[2]},
				End:   hcl.Pos{Line: t.End[0], Column: t.End[1], Byte: t.End[2]}},
		}
	}
	for _, t := range b.TargetableAs {
		bs.TargetableAs = append(bs.TargetableAs, compileTargetable(t))
	}
	for _, io := range b.Implied {
		bs.ImpliedOrigins = append(bs.ImpliedOrigins, schema.ImpliedOrigin{
			OriginAddress: ParseAddr(io.Origin),
			TargetAddress: ParseAddr(io.Target),
			Path:          lang.Path{Path: io.Path, LanguageID: io.Lang},
			Constraints:   schema.Constraints{ScopeId: lang.ScopeId(io.Scope), Type: ParseType(io.Type)},
		})
	}
	return bs
}

func blockType(s string) schema.BlockType {
	switch s {
	case "list":
		return schema.BlockTypeList
	case "set":
		return schema.BlockTypeSet
	case "map":
		return schema.BlockTypeMap
	case "object":
		return schema.BlockTypeObject
	}
	return schema.BlockTypeNil
}

// DepKeys builds the DependencyKeys of a dependent body in the order listed.
func DepKeys(d *DepBodySpec) schema.DependencyKeys {
	var dk schema.DependencyKeys
	for _, l := range d.Labels {
		dk.Labels = append(dk.Labels, schema.LabelDependent{Index: l.Index, Value: l.Value})
	}
	for _, a := range d.Attrs {
		ev := schema.ExpressionValue{}
		if a.Static != nil {
			ev.Static = ParseVal(a.Static)
		}
		if a.Addr != "" {
			ev.Address = ParseAddr(a.Addr)
		}
		dk.Attributes = append(dk.Attributes, schema.AttributeDependent{Name: a.Name, Expr: ev})
	}
	return dk
}

func CompileBlock(b *BlockSpec) *schema.BlockSchema {
	bs := &schema.BlockSchema{
		Type:                   blockType(b.BType),
		SemanticTokenModifiers: mods(b.Mods),
		Body:                   CompileBody(b.Body),
		Description:            md(b.Desc),
		IsDeprecated:           b.Depr,
		MinItems:               b.Min,
		MaxItems:               b.Max,
	}
	for _, l := range b.Labels {
		bs.Labels = append(bs.Labels, &schema.LabelSchema{
			Name: l.Name, Description: md(l.Desc), SemanticTokenModifiers: mods(l.Mods),
			IsDepKey: l.DepKey, Completable: l.Completable,
		})
	}
	if b.Dep != nil {
		bs.DependentBody = make(map[schema.SchemaKey]*schema.BodySchema, len(b.Dep))
		for _, d := range b.Dep {
			bs.DependentBody[schema.NewSchemaKey(DepKeys(d))] = CompileBody(d.Body)
		}
	}
	if a := b.Addr; a != nil {
		bs.Address = &schema.BlockAddrSchema{
			Steps:                    steps(a.Steps),
			FriendlyName:             a.Name,
			ScopeId:                  lang.ScopeId(a.Scope),
			AsReference:              a.AsRef,
			BodyAsData:               a.BodyAsData,
			InferBody:                a.InferBody,
			BodySelfRef:              a.BodySelfRef,
			DependentBodyAsData:      a.DepBodyAsData,
			InferDependentBody:       a.InferDepBody,
			DependentBodySelfRef:     a.DepBodySelfRef,
			SupportUnknownNestedRefs: a.UnknownNested,
		}
		if a.AsTypeOf != "" {
			n := a.AsTypeOf
			if n == "-" {
				n = ""
			}
			bs.Address.AsTypeOf = &schema.BlockAsTypeOf{AttributeExpr: n}
		}
	}
	return bs
}

func CompileFuncs(fs []*FuncSpec) map[string]schema.FunctionSignature {
	if fs == nil {
		return nil
	}
	out := make(map[string]schema.FunctionSignature, len(fs))
	for _, f := range fs {
		sig := schema.FunctionSignature{Description: f.Desc, ReturnType: ParseType(f.Return)}
		for _, p := range f.Params {
			sig.Params = append(sig.Params, function.Parameter{Name: p.Name, Type: ParseType(p.Type), Description: p.Desc})
		}
		if f.VarParam != nil {
			sig.VarParam = &function.Parameter{Name: f.VarParam.Name, Type: ParseType(f.VarParam.Type), Description: f.VarParam.Desc}
		}
		out[f.Name] = sig
	}
	return out
}

var StockValidators = []string{
	"UnexpectedAttribute", "UnexpectedBlock", "MissingRequiredAttribute", "DeprecatedAttribute",
	"DeprecatedBlock", "BlockLabelsLength", "MaxBlocks", "MinBlocks",
}

func CompileValidators(names []string) []validator.Validator {
	var out []validator.Validator
	for _, n := range names {
		switch n {
		case "UnexpectedAttribute":
			out = append(out, validator.UnexpectedAttribute{})
		case "UnexpectedBlock":
			out = append(out, validator.UnexpectedBlock{})
		case "MissingRequiredAttribute":
			out = append(out, validator.MissingRequiredAttribute{})
		case "DeprecatedAttribute":
			out = append(out, validator.DeprecatedAttribute{})
		case "DeprecatedBlock":
			out = append(out, validator.DeprecatedBlock{})
		case "BlockLabelsLength":
			out = append(out, validator.BlockLabelsLength{})
		case "MaxBlocks":
			out = append(out, validator.MaxBlocks{})
		case "MinBlocks":
			out = append(out, validator.MinBlocks{})
		default:
			panic("world: unknown validator " + n)
		}
	}
	return out
}

// SortSpec puts every name-keyed list into name order (the spec is kept
// canonical so that equal worlds serialise equally).
func (b *BodySpec) SortSpec() {
	if b == nil {
		return
	}
	sort.SliceStable(b.Attrs, func(i, j int) bool { return b.Attrs[i].Name < b.Attrs[j].Name })
	sort.SliceStable(b.Blocks, func(i, j int) bool { return b.Blocks[i].Type < b.Blocks[j].Type })
	for _, bl := range b.Blocks {
		bl.Body.SortSpec()
		for _, d := range bl.Dep {
			d.Body.SortSpec()
		}
	}
}

func (b *BodySpec) Attr(name string) *AttrSpec {
	if b == nil {
		return nil
	}
	for _, a := range b.Attrs {
		if a.Name == name {
			return a
		}
	}
	return nil
}

func (b *BodySpec) Block(typ string) *BlockSpec {
	if b == nil {
		return nil
	}
	for _, bl := range b.Blocks {
		if bl.Type == typ {
			return bl
		}
	}
	return nil
}
