package world

// renderJSON renders the both-syntax fragment of a file as HCL JSON.
// (implemented with the C19 oracle)
func renderJSON(f *FileSpec) *Rendered {
	txt := RenderJSONText(f.Items)
	if f.Layout == 2 {
		txt = RenderJSONMinified(f.Items)
	}
	return &Rendered{Name: f.Name, Text: []byte(txt), Nodes: []*Node{nil}, InsertPoints: []int{len(txt)}}
}

// RenderJSONText is replaced by the real JSON renderer (json_render.go) once C19 is built.
var RenderJSONText = func(items []*Item) string { return "{}" }

// RenderJSONMinified renders everything on one line.
var RenderJSONMinified = func(items []*Item) string { return "{}" }
