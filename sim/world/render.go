package world

import (
	"fmt"
	"strings"
	"unicode"
)

// Span is a half-open byte interval of the rendered text.
type Span struct{ Start, End int }

func (s Span) Contains(off int) bool { return off >= s.Start && off < s.End }
func (s Span) Len() int              { return s.End - s.Start }

// Node is the ground truth about one rendered node.
type Node struct {
	ID     int
	Kind   string // attr | block | expr
	Parent int    // enclosing node id (0 = file)
	Item   *Item
	Expr   *Expr
	// attr: Range (whole attribute), Name, Value; block: Range, Name (type keyword),
	// Labels, Open, Close, Body (between braces); expr: Range
	Range  Span
	Name   Span
	Value  Span
	Labels []Span // including quotes
	Open   Span
	Close  Span
	Body   Span
	Depth  int
	// Slot: multi-line call - offset of the empty line behind the last argument
	Slot int
}

type Rendered struct {
	// Unreliable: the text may parse into another structure than the node table describes
	Unreliable bool
	Name       string
	Text       []byte
	Nodes      []*Node // index = ID (0 unused)
	Top        []int   // ids of top-level attr/block nodes in order
	// TopStart[i] = byte offset at which the line of top-level item i begins
	// (insertion points for translation edits), plus len(Text) as last entry.
	InsertPoints []int
}

type layout struct{ s uint64 }

func (l *layout) next() uint64 {
	l.s += 0x9e3779b97f4a7c15
	z := l.s
	z = (z ^ (z >> 30)) * 0xbf58476d1ce4e5b9
	z = (z ^ (z >> 27)) * 0x94d049bb133111eb
	return z ^ (z >> 31)
}
func (l *layout) n(k int) int {
	if l.s == 0 || k <= 0 {
		return 0
	}
	return int(l.next() % uint64(k))
}

type renderer struct {
	b     strings.Builder
	nodes []*Node
	lay   layout
	noise bool
}

func (r *renderer) newNode(kind string, parent, depth int) *Node {
	n := &Node{ID: len(r.nodes), Kind: kind, Parent: parent, Depth: depth}
	r.nodes = append(r.nodes, n)
	return n
}

func (r *renderer) off() int { return r.b.Len() }

// Render produces the native-syntax text of f.
func Render(f *FileSpec) *Rendered {
	if f.Raw != nil {
		return &Rendered{Name: f.Name, Text: []byte(*f.Raw), Nodes: []*Node{nil}, InsertPoints: []int{len(*f.Raw)}}
	}
	if f.JSON {
		return renderJSON(f)
	}
	r := &renderer{lay: layout{s: f.Layout}, noise: f.Layout != 0}
	r.nodes = append(r.nodes, nil)
	out := &Rendered{Name: f.Name}
	for _, it := range f.Items {
		if it.Attr != nil || it.Block != nil || it.Bare != "" {
			out.InsertPoints = append(out.InsertPoints, r.off())
		}
		id := r.item(it, 0, 0)
		if id != 0 {
			out.Top = append(out.Top, id)
		}
	}
	out.InsertPoints = append(out.InsertPoints, r.off())
	out.Text = []byte(r.b.String())
	out.Nodes = r.nodes
	// a half-typed fragment that opens a heredoc swallows whatever follows up to
	// some later marker line: the node table says nothing about such a text
	WalkItems(f.Items, func(it *Item, d int) {
		if it.Attr != nil {
			it.Attr.Expr.Walk(func(e *Expr) {
				if e.K == "raw" && strings.Contains(e.S, "<<") {
					out.Unreliable = true
				}
			})
		}
	})
	return out
}

func (r *renderer) indent(depth int) {
	r.b.WriteString(strings.Repeat("  ", depth))
}

func (r *renderer) item(it *Item, parent, depth int) int {
	switch {
	case it.Attr != nil:
		r.indent(depth)
		n := r.newNode("attr", parent, depth)
		n.Item = it
		it.ID = n.ID
		n.Range.Start = r.off()
		n.Name.Start = r.off()
		r.b.WriteString(it.Attr.Name)
		n.Name.End = r.off()
		switch r.lay.n(4) {
		case 1:
			r.b.WriteString("   = ")
		case 2:
			r.b.WriteString("=")
		default:
			r.b.WriteString(" = ")
		}
		n.Value.Start = r.off()
		r.expr(it.Attr.Expr, n.ID, depth)
		n.Value.End = r.off()
		n.Range.End = r.off()
		// (no comment behind a heredoc: the line of the closing marker must hold
		// nothing else, or the heredoc swallows the rest of the file)
		if r.lay.n(6) == 1 && it.Attr.Expr != nil && it.Attr.Expr.K != "heredoc" {
			r.b.WriteString(" # tráiling ✓")
		}
		r.b.WriteString("\n")
		return n.ID
	case it.Block != nil:
		bl := it.Block
		r.indent(depth)
		n := r.newNode("block", parent, depth)
		n.Item = it
		it.ID = n.ID
		n.Range.Start = r.off()
		n.Name.Start = r.off()
		r.b.WriteString(bl.Type)
		n.Name.End = r.off()
		for _, l := range bl.Labels {
			r.b.WriteString(" ")
			s := r.off()
			if bl.BareLabels && isIdent(l) {
				r.b.WriteString(l)
			} else {
				r.b.WriteString(quote(l))
			}
			n.Labels = append(n.Labels, Span{s, r.off()})
		}
		r.b.WriteString(" ")
		n.Open = Span{r.off(), r.off() + 1}
		r.b.WriteString("{")
		n.Body.Start = r.off()
		if bl.OneLine && len(bl.Body) <= 1 && (len(bl.Body) == 0 || bl.Body[0].Attr != nil && singleLine(bl.Body[0].Attr.Expr)) {
			if len(bl.Body) == 1 {
				a := bl.Body[0]
				r.b.WriteString(" ")
				an := r.newNode("attr", n.ID, depth+1)
				an.Item = a
				a.ID = an.ID
				an.Range.Start = r.off()
				an.Name = Span{r.off(), r.off() + len(a.Attr.Name)}
				r.b.WriteString(a.Attr.Name)
				r.b.WriteString(" = ")
				an.Value.Start = r.off()
				r.expr(a.Attr.Expr, an.ID, depth+1)
				an.Value.End = r.off()
				an.Range.End = r.off()
				r.b.WriteString(" ")
			}
		} else {
			r.b.WriteString("\n")
			for _, c := range bl.Body {
				r.item(c, n.ID, depth+1)
			}
			r.indent(depth)
		}
		n.Body.End = r.off()
		n.Close = Span{r.off(), r.off() + 1}
		r.b.WriteString("}")
		n.Range.End = r.off()
		r.b.WriteString("\n")
		return n.ID
	case it.Bare != "":
		r.indent(depth)
		r.b.WriteString(it.Bare)
		r.b.WriteString("\n")
	case it.Comment != "":
		r.indent(depth)
		r.b.WriteString(it.Comment)
		r.b.WriteString("\n")
	default:
		for i := 0; i < it.Blank; i++ {
			r.b.WriteString("\n")
		}
	}
	return 0
}

func singleLine(e *Expr) bool {
	if e == nil {
		return true
	}
	if e.Multi || e.K == "heredoc" {
		return false
	}
	for _, a := range e.A {
		if !singleLine(a) {
			return false
		}
	}
	for _, a := range e.Keys {
		if !singleLine(a) {
			return false
		}
	}
	return true
}

func isIdent(s string) bool {
	if s == "" {
		return false
	}
	for i, c := range s {
		if c == '_' || c >= 'a' && c <= 'z' || c >= 'A' && c <= 'Z' || (i > 0 && (c >= '0' && c <= '9' || c == '-')) {
			continue
		}
		if c >= 0x80 && unicode.IsLetter(c) {
			continue // HCL identifiers are Unicode identifiers (größe)
		}
		return false
	}
	return true
}

func quote(s string) string {
	var b strings.Builder
	b.WriteByte('"')
	escapeInto(&b, s)
	b.WriteByte('"')
	return b.String()
}

func escapeInto(b *strings.Builder, s string) {
	for i := 0; i < len(s); i++ {
		c := s[i]
		switch {
		case c == '"':
			b.WriteString(`\"`)
		case c == '\\':
			b.WriteString(`\\`)
		case c == '\n':
			b.WriteString(`\n`)
		case c == '\t':
			b.WriteString(`\t`)
		case (c == '$' || c == '%') && i+1 < len(s) && s[i+1] == '{':
			b.WriteByte(c)
			b.WriteByte(c)
		default:
			b.WriteByte(c)
		}
	}
}

func (r *renderer) expr(e *Expr, parent, depth int) {
	if e == nil {
		return
	}
	n := r.newNode("expr", parent, depth)
	n.Expr = e
	e.ID = n.ID
	n.Range.Start = r.off()
	defer func() { n.Range.End = r.off() }()
	switch e.K {
	case "str":
		r.b.WriteString(quote(e.S))
	case "num", "bool", "null", "kw", "type", "raw", "ref":
		r.b.WriteString(e.S)
	case "tmpl":
		r.b.WriteByte('"')
		for _, p := range e.A {
			if p.K == "str" {
				pn := r.newNode("expr", n.ID, depth)
				pn.Expr = p
				p.ID = pn.ID
				pn.Range.Start = r.off()
				escapeInto(&r.b, p.S)
				pn.Range.End = r.off()
			} else {
				r.b.WriteString("${")
				r.expr(p, n.ID, depth)
				r.b.WriteString("}")
			}
		}
		r.b.WriteByte('"')
	case "heredoc":
		r.b.WriteString("<<EOT\n")
		r.b.WriteString(e.S)
		if !strings.HasSuffix(e.S, "\n") {
			r.b.WriteString("\n")
		}
		r.indent(depth)
		r.b.WriteString("EOT")
	case "bin":
		r.operand(e.A[0], n.ID, depth)
		r.b.WriteString(" " + e.S + " ")
		r.operand(e.A[1], n.ID, depth)
	case "un":
		r.b.WriteString(e.S)
		r.operand(e.A[0], n.ID, depth)
	case "cond":
		r.operand(e.A[0], n.ID, depth)
		r.b.WriteString(" ? ")
		r.operand(e.A[1], n.ID, depth)
		r.b.WriteString(" : ")
		r.operand(e.A[2], n.ID, depth)
	case "paren":
		r.b.WriteString("(")
		r.expr(e.A[0], n.ID, depth)
		r.b.WriteString(")")
	case "index":
		r.operand(e.A[0], n.ID, depth)
		r.b.WriteString("[")
		r.expr(e.A[1], n.ID, depth)
		r.b.WriteString("]")
	case "call":
		if e.Multi && len(e.A) > 0 && e.Flag != "expand" {
			// one argument per line, trailing comma, then an empty line: the
			// place where the next argument is about to be typed
			r.b.WriteString(e.S)
			r.b.WriteString("(\n")
			for _, a := range e.A {
				r.indent(depth + 1)
				r.expr(a, n.ID, depth+1)
				r.b.WriteString(",\n")
			}
			r.indent(depth + 1)
			n.Slot = r.off()
			r.b.WriteString("\n")
			r.indent(depth)
			r.b.WriteString(")")
			break
		}
		r.b.WriteString(e.S)
		r.b.WriteString("(")
		for i, a := range e.A {
			if i > 0 {
				r.b.WriteString(", ")
			}
			r.expr(a, n.ID, depth)
		}
		if e.Flag == "expand" && len(e.A) > 0 {
			r.b.WriteString("...")
		}
		r.b.WriteString(")")
	case "list":
		if e.Multi && len(e.A) > 0 {
			r.b.WriteString("[\n")
			for _, a := range e.A {
				r.indent(depth + 1)
				r.expr(a, n.ID, depth+1)
				r.b.WriteString(",\n")
			}
			r.indent(depth)
			r.b.WriteString("]")
		} else {
			r.b.WriteString("[")
			for i, a := range e.A {
				if i > 0 {
					r.b.WriteString(", ")
				}
				r.expr(a, n.ID, depth)
			}
			r.b.WriteString("]")
		}
	case "obj":
		sep := " = "
		if e.Flag == "colon" {
			sep = ": "
		}
		if e.Multi && len(e.A) > 0 {
			r.b.WriteString("{\n")
			for i, a := range e.A {
				r.indent(depth + 1)
				r.key(e.Keys[i], n.ID, depth+1)
				r.b.WriteString(sep)
				r.expr(a, n.ID, depth+1)
				r.b.WriteString("\n")
			}
			r.indent(depth)
			r.b.WriteString("}")
		} else {
			r.b.WriteString("{")
			for i, a := range e.A {
				if i > 0 {
					r.b.WriteString(", ")
				} else {
					r.b.WriteString(" ")
				}
				r.key(e.Keys[i], n.ID, depth)
				r.b.WriteString(sep)
				r.expr(a, n.ID, depth)
			}
			if len(e.A) > 0 {
				r.b.WriteString(" ")
			}
			r.b.WriteString("}")
		}
	case "for":
		// A = coll, [key,] val, [cond]; Flag contains "obj" and/or "cond"
		isObj := strings.Contains(e.Flag, "obj")
		hasCond := strings.Contains(e.Flag, "cond")
		if isObj {
			r.b.WriteString("{for ")
		} else {
			r.b.WriteString("[for ")
		}
		r.b.WriteString(strings.ReplaceAll(e.S, ",", ", "))
		r.b.WriteString(" in ")
		i := 0
		r.expr(e.A[i], n.ID, depth)
		i++
		r.b.WriteString(" : ")
		if isObj {
			r.expr(e.A[i], n.ID, depth)
			i++
			r.b.WriteString(" => ")
		}
		r.expr(e.A[i], n.ID, depth)
		i++
		if hasCond && i < len(e.A) {
			r.b.WriteString(" if ")
			r.expr(e.A[i], n.ID, depth)
		}
		if isObj {
			r.b.WriteString("}")
		} else {
			r.b.WriteString("]")
		}
	default:
		panic(fmt.Sprintf("world: bad expr kind %q", e.K))
	}
}

// operand renders a sub-expression, parenthesised when its own operator would
// otherwise bind differently in the surrounding expression (the expression
// tree, not operator precedence, is the ground truth).
func (r *renderer) operand(e *Expr, parent, depth int) {
	if e != nil && (e.K == "bin" || e.K == "un" || e.K == "cond" || e.K == "for" && false) {
		r.b.WriteString("(")
		r.expr(e, parent, depth)
		r.b.WriteString(")")
		return
	}
	r.expr(e, parent, depth)
}

func (r *renderer) key(k *Expr, parent, depth int) {
	r.expr(k, parent, depth)
}

// Exprs calls fn for every expression in e (pre-order).
func (e *Expr) Walk(fn func(*Expr)) {
	if e == nil {
		return
	}
	fn(e)
	for _, k := range e.Keys {
		k.Walk(fn)
	}
	for _, a := range e.A {
		a.Walk(fn)
	}
}

// WalkItems calls fn for every item, depth first.
func WalkItems(items []*Item, fn func(it *Item, depth int)) {
	var rec func(items []*Item, d int)
	rec = func(items []*Item, d int) {
		for _, it := range items {
			fn(it, d)
			if it.Block != nil {
				rec(it.Block.Body, d+1)
			}
		}
	}
	rec(items, 0)
}

// renderJSON is implemented in json.go
