module simrt

go 1.23
