// Package simrt is the run-time half of the simulator seams that
// tools/simrewrite inserts into a scratch copy of the code under test:
//
//   - MapSeq: every `range` over a map is routed through it, so the iteration
//     order of every map is decided by the scenario (the "map-order schedule"),
//     not by the Go runtime;
//   - Tick: a deterministic step counter (non-termination budget) and the
//     pre-emption points at which the simulator's scheduler may switch tasks.
//
// Everything that touches state shared between the scheduler and the tasks
// lives in //go:norace leaf functions, so that the race detector (which the
// C05 oracle relies on) never reports the simulator's own bookkeeping.
//
// The package imports nothing but the standard library and draws from no
// random source: every choice is a pure function of the Task configuration.
package simrt

import (
	"iter"
	"reflect"
	"sort"
)

// Policy is a map-order policy.
type Policy uint8

const (
	Asc Policy = iota // canonical (sorted keys)
	Desc
	Rotate   // canonical order rotated by Key positions
	Shuffle  // fresh permutation per (Key, site, n-th execution of the site)
	PinFirst // element chosen by hash(Key, site) moved to the front
	PinLast  // ... moved to the back
)

func (p Policy) String() string {
	switch p {
	case Asc:
		return "asc"
	case Desc:
		return "desc"
	case Rotate:
		return "rotate"
	case Shuffle:
		return "shuffle"
	case PinFirst:
		return "pinfirst"
	case PinLast:
		return "pinlast"
	}
	return "?"
}

func ParsePolicy(s string) (Policy, bool) {
	switch s {
	case "asc", "":
		return Asc, true
	case "desc":
		return Desc, true
	case "rotate":
		return Rotate, true
	case "shuffle":
		return Shuffle, true
	case "pinfirst":
		return PinFirst, true
	case "pinlast":
		return PinLast, true
	}
	return Asc, false
}

const MaxSites = 8192

// Task is the per-task simulator state. A Task is owned by exactly one
// goroutine at a time; the scheduler touches it only through norace helpers.
type Task struct {
	ID     int
	Policy Policy
	Key    uint64

	// Ticks counts executed Tick points; Budget > 0 bounds them.
	Ticks  int64
	Budget int64

	// Preempt > 0: number of Tick points until the task yields.
	Preempt int64
	// Yield is invoked (on the task's goroutine) when Preempt reaches zero. It
	// must hand control to the scheduler and return when the task is resumed;
	// it may set Preempt again.
	Yield func(t *Task)

	// statistics
	MapRanges    int64 // map ranges executed with >= 2 keys
	NonCanonical int64 // of which were delivered in a non-canonical order
	siteExec     [MaxSites]uint32
	SiteNonCanon [MaxSites / 64]uint64 // bitmap: site saw a non-canonical order
	SiteSeen     [MaxSites / 64]uint64 // bitmap: site executed with >= 2 keys
}

// ResetSchedule restarts the per-site execution counters, so that the
// map-order schedule of a query depends on (policy, key) only and not on what
// the task ran before.
//
//go:norace
func (t *Task) ResetSchedule() {
	for i := range t.siteExec {
		t.siteExec[i] = 0
	}
}

// BudgetExceeded is the panic value raised by Tick when a task runs out of
// budget (reported as non-termination by the C01 oracle).
type BudgetExceeded struct{ Ticks int64 }

var cur *Task
var idle = &Task{ID: -1}

//go:norace
func current() *Task {
	if cur == nil {
		return idle
	}
	return cur
}

// SetCurrent installs t as the running task (nil = idle task, canonical order).
//
//go:norace
func SetCurrent(t *Task) { cur = t }

// Current returns the running task (never nil).
//
//go:norace
func Current() *Task { return current() }

// Tick is inserted at every function entry and loop body of the code under test.
//
//go:norace
func Tick(site uint32) {
	t := cur
	if t == nil {
		return
	}
	t.Ticks++
	if t.Budget > 0 && t.Ticks > t.Budget {
		t.Budget = 0 // raise once; deferred code may tick again
		panic(BudgetExceeded{Ticks: t.Ticks})
	}
	if t.Preempt > 0 {
		t.Preempt--
		if t.Preempt == 0 && t.Yield != nil {
			t.Yield(t)
		}
	}
}

//go:norace
func mix(x uint64) uint64 {
	x ^= x >> 30
	x *= 0xbf58476d1ce4e5b9
	x ^= x >> 27
	x *= 0x94d049bb133111eb
	x ^= x >> 31
	return x
}

// plan decides, for the n keys of one execution of one site, the permutation
// to apply to the canonical order. It returns perm such that out[i] = in[perm[i]].
//
//go:norace
func plan(site uint32, n int) (perm []int, nonCanonical bool) {
	t := current()
	s := site % MaxSites
	exec := t.siteExec[s]
	t.siteExec[s]++
	t.MapRanges++
	t.SiteSeen[s/64] |= 1 << (s % 64)
	perm = make([]int, n)
	for i := range perm {
		perm[i] = i
	}
	switch t.Policy {
	case Asc:
	case Desc:
		for i := range perm {
			perm[i] = n - 1 - i
		}
	case Rotate:
		k := int(t.Key % uint64(n))
		for i := range perm {
			perm[i] = (i + k) % n
		}
	case Shuffle:
		st := mix(t.Key ^ mix(uint64(site)+1) ^ mix(uint64(exec)+0x9e3779b97f4a7c15))
		for i := n - 1; i > 0; i-- {
			st = mix(st + 0x9e3779b97f4a7c15)
			j := int(st % uint64(i+1))
			perm[i], perm[j] = perm[j], perm[i]
		}
	case PinFirst, PinLast:
		p := int(mix(t.Key^mix(uint64(site)+7)) % uint64(n))
		out := perm[:0:0]
		if t.Policy == PinFirst {
			out = append(out, p)
		}
		for i := 0; i < n; i++ {
			if i != p {
				out = append(out, i)
			}
		}
		if t.Policy == PinLast {
			out = append(out, p)
		}
		perm = out
	}
	for i := range perm {
		if perm[i] != i {
			nonCanonical = true
			break
		}
	}
	if nonCanonical {
		t.NonCanonical++
		t.SiteNonCanon[s/64] |= 1 << (s % 64)
	}
	return perm, nonCanonical
}

// MapSeq replaces the operand of every `range` over a map. The keys are
// collected (an ordinary, race-visible read of the map), put into canonical
// order and permuted as the running task's policy says. An entry deleted
// before it is reached is not produced, as the language specifies; entries
// inserted during the iteration are not visited, which the language allows.
func MapSeq[M ~map[K]V, K comparable, V any](m M, site uint32) iter.Seq2[K, V] {
	return func(yield func(K, V) bool) {
		n := len(m)
		if n == 0 {
			return
		}
		keys := make([]K, 0, n)
		for k := range m {
			keys = append(keys, k)
		}
		if n > 1 {
			canonical(keys)
			perm, nc := plan(site, n)
			if nc {
				out := make([]K, n)
				for i, p := range perm {
					out[i] = keys[p]
				}
				keys = out
			}
		}
		for _, k := range keys {
			v, ok := m[k]
			if !ok {
				continue
			}
			if !yield(k, v) {
				return
			}
		}
	}
}

// canonical sorts keys into an order that depends only on the keys' values.
func canonical[K comparable](keys []K) {
	switch ks := any(keys).(type) {
	case []string:
		sort.Strings(ks)
		return
	case []int:
		sort.Ints(ks)
		return
	}
	var zero K
	rt := reflect.TypeOf(zero)
	if rt == nil { // interface-typed key
		sort.SliceStable(keys, func(i, j int) bool { return ifaceLess(any(keys[i]), any(keys[j])) })
		return
	}
	switch rt.Kind() {
	case reflect.String:
		sort.SliceStable(keys, func(i, j int) bool {
			return reflect.ValueOf(keys[i]).String() < reflect.ValueOf(keys[j]).String()
		})
	case reflect.Int, reflect.Int8, reflect.Int16, reflect.Int32, reflect.Int64:
		sort.SliceStable(keys, func(i, j int) bool {
			return reflect.ValueOf(keys[i]).Int() < reflect.ValueOf(keys[j]).Int()
		})
	case reflect.Uint, reflect.Uint8, reflect.Uint16, reflect.Uint32, reflect.Uint64, reflect.Uintptr:
		sort.SliceStable(keys, func(i, j int) bool {
			return reflect.ValueOf(keys[i]).Uint() < reflect.ValueOf(keys[j]).Uint()
		})
	default:
		sort.SliceStable(keys, func(i, j int) bool { return ifaceLess(any(keys[i]), any(keys[j])) })
	}
}

func ifaceLess(a, b any) bool {
	return describe(a) < describe(b)
}

// describe renders a key without following pointers (pointer identity would
// not be reproducible); keys of pointer type fall back to their type name and
// thus keep the (stable-sorted) collection order, which is reported by the
// rewriter as an uncontrolled site.
func describe(x any) string {
	v := reflect.ValueOf(x)
	if !v.IsValid() {
		return "<nil>"
	}
	switch v.Kind() {
	case reflect.String:
		return "s:" + v.String()
	case reflect.Int, reflect.Int8, reflect.Int16, reflect.Int32, reflect.Int64:
		return "i:" + itoa(v.Int())
	case reflect.Uint, reflect.Uint8, reflect.Uint16, reflect.Uint32, reflect.Uint64, reflect.Uintptr:
		return "u:" + itoa(int64(v.Uint()))
	case reflect.Bool:
		if v.Bool() {
			return "b:1"
		}
		return "b:0"
	case reflect.Struct:
		s := "{" + v.Type().String()
		for i := 0; i < v.NumField(); i++ {
			f := v.Field(i)
			if f.CanInterface() {
				s += "," + describe(f.Interface())
			} else {
				s += "," + describeUnexported(f)
			}
		}
		return s + "}"
	case reflect.Array:
		s := "["
		for i := 0; i < v.Len(); i++ {
			s += describe(v.Index(i).Interface()) + ","
		}
		return s + "]"
	}
	return "t:" + v.Type().String()
}

func describeUnexported(f reflect.Value) string {
	switch f.Kind() {
	case reflect.String:
		return "s:" + f.String()
	case reflect.Int, reflect.Int8, reflect.Int16, reflect.Int32, reflect.Int64:
		return "i:" + itoa(f.Int())
	case reflect.Uint, reflect.Uint8, reflect.Uint16, reflect.Uint32, reflect.Uint64, reflect.Uintptr:
		return "u:" + itoa(int64(f.Uint()))
	case reflect.Bool:
		if f.Bool() {
			return "b:1"
		}
		return "b:0"
	}
	return "t:" + f.Type().String()
}

func itoa(i int64) string {
	if i == 0 {
		return "0"
	}
	neg := i < 0
	if neg {
		i = -i
	}
	var b [24]byte
	p := len(b)
	for i > 0 {
		p--
		b[p] = byte('0' + i%10)
		i /= 10
	}
	if neg {
		p--
		b[p] = '-'
	}
	return string(b[p:])
}

// ---------------------------------------------------------------------------
// Package-level variables of the code under test (registered by generated
// accessor files) - roots for the snapshot oracle.

type PkgVar struct {
	Name string
	Ptr  any // pointer to the variable
}

var pkgVars []PkgVar

func RegisterPkgVar(name string, ptr any) { pkgVars = append(pkgVars, PkgVar{name, ptr}) }

func PkgVars() []PkgVar {
	out := append([]PkgVar(nil), pkgVars...)
	sort.Slice(out, func(i, j int) bool { return out[i].Name < out[j].Name })
	return out
}
