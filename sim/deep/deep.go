// Package deep is a reflection walker used three ways:
//   - Dump: a canonical, order-preserving textual form of any query result
//     (equality for C03/C05/C18, optionally with positions mapped);
//   - Ranges: enumerate every hcl.Range reachable from a result (C02);
//   - Snapshot: a structural dump of everything reachable from the shared
//     roots, including unexported fields and pointer-aliasing shape (C04/C05).
//
// It never ranges over a map without sorting the keys.
package deep

import (
	"fmt"
	"reflect"
	"runtime"
	"sort"
	"strconv"
	"strings"
	"unsafe"

	"github.com/hashicorp/hcl/v2"
	"github.com/zclconf/go-cty/cty"
)

type Options struct {
	// PosMap, if set, is applied to every hcl.Pos printed (with its file name).
	PosMap func(file string, p hcl.Pos) hcl.Pos
	// RangeMap, if set, is applied to every hcl.Range printed, before PosMap.
	RangeMap func(r hcl.Range) (hcl.Range, bool)
	// OnRange, if set, is called for every hcl.Range met (path = field path).
	OnRange func(path string, r hcl.Range)
	// Identity: print pointer-aliasing shape (snapshot mode).
	Identity bool
	// Funcs: print func values by symbol name (snapshot mode); otherwise "func".
	Funcs bool
	// SkipFields: field names (Type.Field) not descended into.
	SkipFields map[string]bool
	// MaxDepth guards against runaway structures.
	MaxDepth int
}

type walker struct {
	o     Options
	b     strings.Builder
	seen  map[visitKey]int
	depth int
}

type visitKey struct {
	p uintptr
	t reflect.Type
}

var (
	tCtyType  = reflect.TypeOf(cty.Type{})
	tCtyValue = reflect.TypeOf(cty.Value{})
	tRange    = reflect.TypeOf(hcl.Range{})
	tPos      = reflect.TypeOf(hcl.Pos{})
	tDiagPtr  = reflect.TypeOf(&hcl.Diagnostic{})
	tPath     = reflect.TypeOf(cty.Path{})
)

// Dump returns the canonical text of v.
func Dump(v any, o Options) string {
	w := &walker{o: o, seen: map[visitKey]int{}}
	if w.o.MaxDepth == 0 {
		w.o.MaxDepth = 200
	}
	w.value(addressable(reflect.ValueOf(v)), "")
	return w.b.String()
}

// Ranges calls fn for every hcl.Range reachable from v.
func Ranges(v any, fn func(path string, r hcl.Range)) {
	Dump(v, Options{OnRange: fn})
}

func addressable(v reflect.Value) reflect.Value {
	if !v.IsValid() || v.CanAddr() {
		return v
	}
	c := reflect.New(v.Type()).Elem()
	c.Set(v)
	return c
}

// strip removes the read-only flag of a value obtained through an unexported
// field (v must be addressable).
func strip(v reflect.Value) reflect.Value {
	if v.CanInterface() || !v.CanAddr() {
		return v
	}
	return reflect.NewAt(v.Type(), unsafe.Pointer(v.UnsafeAddr())).Elem()
}

func (w *walker) pos(file string, p hcl.Pos) {
	if w.o.PosMap != nil {
		p = w.o.PosMap(file, p)
	}
	fmt.Fprintf(&w.b, "%d:%d@%d", p.Line, p.Column, p.Byte)
}

func (w *walker) rng(path string, r hcl.Range) {
	if w.o.OnRange != nil {
		w.o.OnRange(path, r)
	}
	if w.o.RangeMap != nil {
		if m, done := w.o.RangeMap(r); done {
			// fully mapped: print verbatim
			fmt.Fprintf(&w.b, "R(%s %d:%d@%d-%d:%d@%d)", m.Filename, m.Start.Line, m.Start.Column, m.Start.Byte, m.End.Line, m.End.Column, m.End.Byte)
			return
		}
	}
	w.b.WriteString("R(")
	w.b.WriteString(r.Filename)
	w.b.WriteByte(' ')
	w.pos(r.Filename, r.Start)
	w.b.WriteByte('-')
	w.pos(r.Filename, r.End)
	w.b.WriteByte(')')
}

func (w *walker) value(v reflect.Value, path string) {
	if !v.IsValid() {
		w.b.WriteString("<invalid>")
		return
	}
	w.depth++
	defer func() { w.depth-- }()
	if w.depth > w.o.MaxDepth {
		w.b.WriteString("<deep>")
		return
	}
	v = strip(v)
	t := v.Type()
	switch t {
	case tCtyType:
		ty := v.Interface().(cty.Type)
		if ty == cty.NilType {
			w.b.WriteString("cty.NilType")
		} else {
			w.b.WriteString(ty.GoString())
		}
		return
	case tCtyValue:
		val := v.Interface().(cty.Value)
		if val == cty.NilVal {
			w.b.WriteString("cty.NilVal")
		} else {
			w.b.WriteString(safeGoString(val))
		}
		return
	case tRange:
		w.rng(path, v.Interface().(hcl.Range))
		return
	case tPos:
		w.pos("", v.Interface().(hcl.Pos))
		return
	case tDiagPtr:
		d := v.Interface().(*hcl.Diagnostic)
		if d == nil {
			w.b.WriteString("nil")
			return
		}
		fmt.Fprintf(&w.b, "Diag{%d %q %q ", d.Severity, d.Summary, d.Detail)
		if d.Subject != nil {
			w.rng(w.sub(path, ".", "Subject"), *d.Subject)
		} else {
			w.b.WriteString("nil")
		}
		w.b.WriteByte(' ')
		if d.Context != nil {
			w.rng(w.sub(path, ".", "Context"), *d.Context)
		} else {
			w.b.WriteString("nil")
		}
		w.b.WriteByte('}')
		return
	}
	switch v.Kind() {
	case reflect.Bool:
		w.b.WriteString(strconv.FormatBool(v.Bool()))
	case reflect.Int, reflect.Int8, reflect.Int16, reflect.Int32, reflect.Int64:
		w.b.WriteString(strconv.FormatInt(v.Int(), 10))
	case reflect.Uint, reflect.Uint8, reflect.Uint16, reflect.Uint32, reflect.Uint64, reflect.Uintptr:
		w.b.WriteString(strconv.FormatUint(v.Uint(), 10))
	case reflect.Float32, reflect.Float64:
		w.b.WriteString(strconv.FormatFloat(v.Float(), 'g', -1, 64))
	case reflect.String:
		w.b.WriteString(strconv.Quote(v.String()))
	case reflect.Func:
		if v.IsNil() {
			w.b.WriteString("nil")
		} else if w.o.Funcs {
			if f := runtime.FuncForPC(v.Pointer()); f != nil {
				w.b.WriteString("func:" + f.Name())
			} else {
				w.b.WriteString("func")
			}
		} else {
			w.b.WriteString("func")
		}
	case reflect.Chan, reflect.UnsafePointer:
		w.b.WriteString(t.String())
	case reflect.Interface:
		if v.IsNil() {
			w.b.WriteString("nil")
			return
		}
		e := v.Elem()
		w.b.WriteString("(" + e.Type().String() + ")")
		w.value(addressable(e), path)
	case reflect.Ptr:
		if v.IsNil() {
			w.b.WriteString("nil")
			return
		}
		k := visitKey{v.Pointer(), t}
		if id, ok := w.seen[k]; ok {
			fmt.Fprintf(&w.b, "&#%d", id)
			return
		}
		id := len(w.seen) + 1
		w.seen[k] = id
		if w.o.Identity {
			fmt.Fprintf(&w.b, "&%d=", id)
		} else {
			w.b.WriteByte('&')
		}
		w.value(v.Elem(), path)
	case reflect.Struct:
		w.b.WriteString(t.Name())
		w.b.WriteByte('{')
		for i := 0; i < v.NumField(); i++ {
			f := t.Field(i)
			if w.o.SkipFields != nil && w.o.SkipFields[t.Name()+"."+f.Name] {
				continue
			}
			if i > 0 {
				w.b.WriteByte(' ')
			}
			w.b.WriteString(f.Name)
			w.b.WriteByte(':')
			w.value(v.Field(i), w.sub(path, ".", f.Name))
		}
		w.b.WriteByte('}')
	case reflect.Slice:
		if v.IsNil() {
			w.b.WriteString("nil[]")
			return
		}
		if t.Elem().Kind() == reflect.Uint8 {
			if w.o.Identity {
				fmt.Fprintf(&w.b, "bytes@%s", w.ident(v.Pointer(), t))
			}
			b := make([]byte, v.Len())
			reflect.Copy(reflect.ValueOf(b), v)
			w.b.WriteString(strconv.Quote(string(b)))
			return
		}
		if w.o.Identity && v.Len() > 0 {
			fmt.Fprintf(&w.b, "slice@%s", w.ident(v.Pointer(), t))
		}
		w.b.WriteByte('[')
		for i := 0; i < v.Len(); i++ {
			if i > 0 {
				w.b.WriteByte(' ')
			}
			w.value(v.Index(i), w.subi(path, i))
		}
		w.b.WriteByte(']')
	case reflect.Array:
		w.b.WriteByte('[')
		for i := 0; i < v.Len(); i++ {
			if i > 0 {
				w.b.WriteByte(' ')
			}
			w.value(v.Index(i), w.subi(path, i))
		}
		w.b.WriteByte(']')
	case reflect.Map:
		if v.IsNil() {
			w.b.WriteString("nilmap")
			return
		}
		if w.o.Identity {
			fmt.Fprintf(&w.b, "map@%s", w.ident(v.Pointer(), t))
		}
		type kv struct {
			ks string
			k  reflect.Value
		}
		keys := v.MapKeys()
		kvs := make([]kv, len(keys))
		for i, k := range keys {
			sub := &walker{o: Options{}, seen: map[visitKey]int{}}
			sub.o.MaxDepth = 50
			sub.value(addressable(k), "")
			kvs[i] = kv{sub.b.String(), k}
		}
		sort.SliceStable(kvs, func(i, j int) bool { return kvs[i].ks < kvs[j].ks })
		w.b.WriteString("map[")
		for i, e := range kvs {
			if i > 0 {
				w.b.WriteByte(' ')
			}
			w.b.WriteString(e.ks)
			w.b.WriteByte(':')
			w.value(addressable(v.MapIndex(e.k)), w.sub(path, "[", e.ks))
		}
		w.b.WriteByte(']')
	default:
		w.b.WriteString("<" + t.String() + ">")
	}
}

func (w *walker) sub(path, sep, name string) string {
	if w.o.OnRange == nil {
		return ""
	}
	return path + sep + name
}

func (w *walker) subi(path string, i int) string {
	if w.o.OnRange == nil {
		return ""
	}
	return path + "[" + strconv.Itoa(i) + "]"
}

func (w *walker) ident(p uintptr, t reflect.Type) string {
	k := visitKey{p, t}
	id, ok := w.seen[k]
	if !ok {
		id = len(w.seen) + 1
		w.seen[k] = id
	}
	return strconv.Itoa(id)
}

func safeGoString(v cty.Value) (s string) {
	defer func() {
		if r := recover(); r != nil {
			s = fmt.Sprintf("cty.Value<%v>", r)
		}
	}()
	return v.GoString()
}
