package oracle

import (
	"fmt"
	"strings"

	"github.com/hashicorp/hcl-lang/decoder"
	"github.com/hashicorp/hcl-lang/reference"
	"github.com/hashicorp/hcl/v2"

	h "lssim/harness"
)

// C11: go-to-definition and find-references are inverse views of one
// resolution. For every collected origin of every path (fresh or stale sets,
// with reader faults on other paths held constant over the pair of calls):
//
//	(i)   every declaration go-to-definition reports that has a definition
//	      range must, asked at that definition, report the origin back;
//	(ii)  origins rooted at count / each / self resolve only inside the block
//	      that declares them;
//	(iv)  origins that point into another path resolve against that path only.
type C11 struct{ base }

func init() { registry["C11"] = func() h.Oracle { return &C11{} } }

func (*C11) Property() string { return "C11" }

func originAddr(o reference.Origin) string {
	switch v := o.(type) {
	case reference.LocalOrigin:
		return v.Addr.String()
	case reference.PathOrigin:
		return v.TargetAddr.String()
	}
	return ""
}

func (o *C11) Check(x *h.Exec, ev *h.Event) {
	c := ev.Check
	salt := uint64(0)
	pathIdx := func(dir string) int {
		for i, p := range x.S.Paths {
			if p.Path.Path == dir {
				return i
			}
		}
		return -1
	}
	for pi, p := range x.S.Paths {
		if x.S.Faults.ReaderError[pi] || x.S.Faults.PathVanish[pi] {
			continue
		}
		origins := p.Ctx().ReferenceOrigins
		seenPos := map[string]bool{}
		for oi, org := range origins {
			if c != nil && c.Max > 0 && oi >= c.Max {
				break
			}
			rng := org.OriginRange()
			f := p.File(rng.Filename)
			if f == nil {
				continue
			}
			off := rng.Start.Byte
			if rng.End.Byte > rng.Start.Byte+1 {
				off = rng.Start.Byte + int(mix(uint64(oi), 5)%uint64(rng.End.Byte-rng.Start.Byte))
			}
			if off > len(f.Text) {
				continue // stale set pointing beyond the current text
			}
			key := fmt.Sprintf("%s:%d", rng.Filename, off)
			if seenPos[key] {
				continue
			}
			seenPos[key] = true
			salt++
			q := h.Query{Kind: "goto_def", Path: pi, File: rng.Filename, Off: off, Order: orderFor(c, salt)}
			r := x.Run(q)
			targets, ok := r.Val.(decoder.ReferenceTargets)
			if !ok || r.Panic != nil || r.Err != nil {
				continue
			}
			x.Cov.Probe("origins_looked_up")
			addr := originAddr(org)
			root := addr
			if i := strings.IndexAny(root, ".["); i >= 0 {
				root = root[:i]
			}
			// several origins may share one range (a reference that is also a
			// direct and/or implied path origin): a reported declaration may
			// stem from any of them
			allowedPaths := map[string]bool{}
			type direct struct {
				path string
				rng  hcl.Range
			}
			var directs []direct
			for _, other := range origins {
				if other.OriginRange() != rng {
					continue
				}
				switch v := other.(type) {
				case reference.LocalOrigin:
					allowedPaths[p.Path.Path] = true
				case reference.PathOrigin:
					allowedPaths[v.TargetPath.Path] = true
				case reference.DirectOrigin:
					directs = append(directs, direct{v.TargetPath.Path, v.TargetRange})
				}
			}
			for ti, t := range targets {
				if t == nil {
					continue
				}
				isDirect := false
				for _, d := range directs {
					if t.OriginRange == rng && t.Path.Path == d.path && t.Range == d.rng && t.DefRangePtr == nil {
						isDirect = true
					}
				}
				if isDirect {
					continue
				}
				// (iv) origins resolve in the path they point into only
				if t.OriginRange == rng {
					if !allowedPaths[t.Path.Path] {
						x.Report("path-origin-wrong-path", "goto_def", "", fmt.Sprintf("origin %s at %v resolved to a declaration of %s, which none of the origins at that range points into", addr, rng, t.Path.Path), &q)
						return
					}
					if _, isPath := org.(reference.PathOrigin); isPath {
						x.Cov.Probe("path_origins_resolved")
					}
				}
				if _, isD := org.(reference.DirectOrigin); isD {
					continue
				}
				// (ii) block-local names
				if (root == "count" || root == "each" || root == "self") && t.OriginRange == rng && t.Path.Equals(p.Path) {
					x.Cov.Probe("block_local_resolved")
					if t.Range.Filename != rng.Filename {
						x.Report("block-local-leak", "goto_def", root, fmt.Sprintf("%s at %v resolved to a declaration in another file: %v", addr, rng, t.Range), &q)
						return
					}
					if f.Rendered != nil && f.ParseOK && x.S.Quiescent() {
						// the outermost block containing the declaration must contain the origin
						var encl *hcl.Range
						for _, n := range f.Rendered.Nodes {
							if n != nil && n.Kind == "block" && n.Parent == 0 && n.Range.Start <= t.Range.Start.Byte && t.Range.End.Byte <= n.Range.End {
								encl = &hcl.Range{Start: hcl.Pos{Byte: n.Range.Start}, End: hcl.Pos{Byte: n.Range.End}}
							}
						}
						if encl != nil && (rng.Start.Byte < encl.Start.Byte || rng.End.Byte > encl.End.Byte) {
							x.Report("block-local-leak", "goto_def", root, fmt.Sprintf("%s at bytes %d..%d resolved to a declaration of another block (bytes %d..%d)", addr, rng.Start.Byte, rng.End.Byte, t.Range.Start.Byte, t.Range.End.Byte), &q)
							return
						}
					}
				}
				// (i) inverse
				if t.DefRangePtr == nil {
					continue
				}
				tp := pathIdx(t.Path.Path)
				if tp < 0 || x.S.Faults.ReaderError[tp] || x.S.Faults.PathVanish[tp] || x.S.Faults.Unlisted[pi] {
					continue
				}
				def := *t.DefRangePtr
				if def.End.Byte <= def.Start.Byte {
					continue
				}
				dpos := def.Start.Byte + int(mix(uint64(ti), 9)%uint64(def.End.Byte-def.Start.Byte))
				tf := x.S.Paths[tp].File(def.Filename)
				if tf == nil || dpos > len(tf.Text) {
					continue
				}
				// the position handed to the lookup must be the one the harness derives from the offset
				salt++
				q2 := h.Query{Kind: "find_refs", Path: tp, File: def.Filename, Off: dpos, Order: orderFor(c, salt)}
				r2 := x.Run(q2)
				back, ok := r2.Val.(decoder.ReferenceOrigins)
				if !ok || r2.Panic != nil {
					continue
				}
				// lookups compare positions by byte offset, line and column: when the
				// sets are stale the recomputed line/column may not match the stored ones
				if !x.S.Quiescent() {
					want := h.PosAt(tf.Text, dpos)
					if want.Line < def.Start.Line || want.Line > def.End.Line {
						continue
					}
				}
				x.Cov.Probe("inverse_pairs_checked")
				found := false
				for _, b := range back {
					if b.Path.Equals(p.Path) && b.Range == t.OriginRange {
						found = true
						break
					}
				}
				if !found {
					x.Report("not-inverse", "find_refs", fmt.Sprintf("%T", org), fmt.Sprintf("go-to-definition from %s (%s) at %s:%v reports the declaration at %s:%v (def %v), but find-references asked there (byte %d) returns %d origins without it", addr, fmt.Sprintf("%T", org), p.Path.Path, rng, t.Path.Path, t.Range, def, dpos, len(back)), &q2)
					return
				}
			}
		}
	}
}
