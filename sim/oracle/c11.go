package oracle

import (
	"fmt"
	"strings"

	"github.com/hashicorp/hcl-lang/decoder"
	"github.com/hashicorp/hcl-lang/lang"
	"github.com/hashicorp/hcl-lang/reference"
	"github.com/hashicorp/hcl/v2"

	h "lssim/harness"
)

// C11: go-to-definition and find-references are inverse views of one
// resolution. For every collected origin of every path (fresh or stale sets,
// with reader faults on other paths held constant over the pair of calls):
//
//	(i)   every declaration go-to-definition reports that has a definition
//	      range must, asked at that definition, report the origin back;
//	(ii)  origins rooted at count / each / self resolve only inside the block
//	      that declares them;
//	(iv)  origins that point into another path resolve against that path only.
type C11 struct{ base }

func init() { registry["C11"] = func() h.Oracle { return &C11{} } }

func (*C11) Property() string { return "C11" }

func originAddr(o reference.Origin) string {
	switch v := o.(type) {
	case reference.LocalOrigin:
		return v.Addr.String()
	case reference.PathOrigin:
		return v.TargetAddr.String()
	}
	return ""
}

func (o *C11) Check(x *h.Exec, ev *h.Event) {
	c := ev.Check
	salt := uint64(0)
	// a path is a directory *and* a language id: one directory may be served
	// under several ids (a module and its variable-definition files)
	pathIdx := func(lp lang.Path) int {
		for i, p := range x.S.Paths {
			if p.Path.Equals(lp) {
				return i
			}
		}
		return -1
	}
	pkey := func(lp lang.Path) string { return lp.Path + "\x00" + lp.LanguageID }
	for pi, p := range x.S.Paths {
		if x.S.Faults.ReaderError[pi] || x.S.Faults.PathVanish[pi] {
			continue
		}
		origins := p.Ctx().ReferenceOrigins
		seenPos := map[string]bool{}
		for oi, org := range origins {
			if c != nil && c.Max > 0 && oi >= c.Max {
				break
			}
			rng := org.OriginRange()
			f := p.File(rng.Filename)
			if f == nil {
				continue
			}
			off := rng.Start.Byte
			if rng.End.Byte > rng.Start.Byte+1 {
				off = rng.Start.Byte + int(mix(uint64(oi), 5)%uint64(rng.End.Byte-rng.Start.Byte))
			}
			if off > len(f.Text) {
				continue // stale set pointing beyond the current text
			}
			key := fmt.Sprintf("%s:%d", rng.Filename, off)
			if seenPos[key] {
				continue
			}
			seenPos[key] = true
			salt++
			q := h.Query{Kind: "goto_def", Path: pi, File: rng.Filename, Off: off, Order: orderFor(c, salt)}
			r := x.Run(q)
			targets, ok := r.Val.(decoder.ReferenceTargets)
			if !ok || r.Panic != nil || r.Err != nil {
				continue
			}
			x.Cov.Probe("origins_looked_up")
			addr := originAddr(org)
			root := addr
			if i := strings.IndexAny(root, ".["); i >= 0 {
				root = root[:i]
			}
			// several origins may share one range (a reference that is also a
			// direct and/or implied path origin): a reported declaration may
			// stem from any of them
			allowedPaths := map[string]bool{}
			type direct struct {
				path lang.Path
				rng  hcl.Range
			}
			var directs []direct
			for _, other := range origins {
				if d, ok := other.(reference.DirectOrigin); ok && other.OriginRange() != rng && d.Range.Filename == rng.Filename && d.Range.Start.Byte <= off && off < d.Range.End.Byte {
					// a direct origin around the position (a whole body pointing at a
					// range of another path): passed through without reading that path
					directs = append(directs, direct{d.TargetPath, d.TargetRange})
				}
				if other.OriginRange() != rng {
					continue
				}
				switch v := other.(type) {
				case reference.LocalOrigin:
					allowedPaths[pkey(p.Path)] = true
				case reference.PathOrigin:
					allowedPaths[pkey(v.TargetPath)] = true
				case reference.DirectOrigin:
					directs = append(directs, direct{v.TargetPath, v.TargetRange})
				}
			}
			for ti, t := range targets {
				if t == nil {
					continue
				}
				isDirect := false
				for _, d := range directs {
					if t.Path.Equals(d.path) && t.Range == d.rng && t.DefRangePtr == nil {
						isDirect = true
					}
				}
				if isDirect {
					continue
				}
				// a declaration of a path that cannot be read right now cannot have
				// been looked up there
				if ti2 := pathIdx(t.Path); ti2 >= 0 && ti2 != pi && (x.S.Faults.ReaderError[ti2] || x.S.Faults.PathVanish[ti2]) {
					x.Report("resolved-in-unreadable-path", "goto_def", "", fmt.Sprintf("origin %s at %v resolved to %v of path %s although that path cannot be read (the declaration reported is not one of that path)", addr, rng, t.Range, t.Path.Path), &q)
					return
				}
				// (iv) origins resolve in the path they point into only
				if t.OriginRange == rng {
					if !allowedPaths[pkey(t.Path)] {
						x.Report("path-origin-wrong-path", "goto_def", "", fmt.Sprintf("origin %s at %v resolved to a declaration of %s, which none of the origins at that range points into", addr, rng, t.Path.Path), &q)
						return
					}
					if _, isPath := org.(reference.PathOrigin); isPath {
						x.Cov.Probe("path_origins_resolved")
					}
				}
				if _, isD := org.(reference.DirectOrigin); isD {
					continue
				}
				// "resolves to exactly the declarations its address denotes": step
				// by step, not as rendered text (a block labelled "a.b" is one step,
				// the reference x.a.b has two). Some stored declaration with the
				// reported range must have an address (absolute or block-local)
				// whose steps are the first steps of the origin's address.
				if t.OriginRange == rng && x.S.Quiescent() {
					if tp0 := pathIdx(t.Path); tp0 >= 0 {
						var oaddrs []lang.Address
						for _, other := range origins {
							if other.OriginRange() != rng {
								continue
							}
							switch v := other.(type) {
							case reference.LocalOrigin:
								oaddrs = append(oaddrs, v.Addr)
							case reference.PathOrigin:
								oaddrs = append(oaddrs, v.TargetAddr)
							}
						}
						found, compatible := false, false
						var visit func(ts reference.Targets, depth int)
						visit = func(ts reference.Targets, depth int) {
							for _, st := range ts {
								if st.RangePtr != nil && *st.RangePtr == t.Range {
									found = true
									for _, oa := range oaddrs {
										if stepPrefix(st.Addr, oa) || stepPrefix(st.LocalAddr, oa) {
											compatible = true
										}
									}
								}
								if depth < 12 {
									visit(st.NestedTargets, depth+1)
								}
							}
						}
						visit(x.S.Paths[tp0].Ctx().ReferenceTargets, 0)
						if found {
							x.Cov.Probe("resolution_checked_step_by_step")
						}
						if found && !compatible && len(oaddrs) > 0 {
							x.Report("address-mismatch", "goto_def", "", fmt.Sprintf("origin %s at %v resolved to the declaration at %v, none of whose addresses is a step-by-step prefix of the origin's address", addr, rng, t.Range), &q)
							return
						}
					}
				}
				// (ii) block-local names
				// (a reference written where the constraint declares an address makes
				// "each.value" an absolute address of its own: that is not the
				// block-local name)
				if (root == "count" || root == "each" || root == "self") && t.OriginRange == rng && t.Path.Equals(p.Path) && !declaredAbsolutely(p.Ctx().ReferenceTargets, root, t.Range, 0) {
					x.Cov.Probe("block_local_resolved")
					if t.Range.Filename != rng.Filename {
						x.Report("block-local-leak", "goto_def", root, fmt.Sprintf("%s at %v resolved to a declaration in another file: %v", addr, rng, t.Range), &q)
						return
					}
					if f.Rendered != nil && f.ParseOK && x.S.Quiescent() {
						// the outermost block containing the declaration must contain the origin
						var encl *hcl.Range
						for _, n := range f.Rendered.Nodes {
							if n != nil && n.Kind == "block" && n.Parent == 0 && n.Range.Start <= t.Range.Start.Byte && t.Range.End.Byte <= n.Range.End {
								encl = &hcl.Range{Start: hcl.Pos{Byte: n.Range.Start}, End: hcl.Pos{Byte: n.Range.End}}
							}
						}
						if encl != nil && (rng.Start.Byte < encl.Start.Byte || rng.End.Byte > encl.End.Byte) {
							x.Report("block-local-leak", "goto_def", root, fmt.Sprintf("%s at bytes %d..%d resolved to a declaration of another block (bytes %d..%d)", addr, rng.Start.Byte, rng.End.Byte, t.Range.Start.Byte, t.Range.End.Byte), &q)
							return
						}
					}
				}
				// (i) inverse
				if t.DefRangePtr == nil {
					continue
				}
				tp := pathIdx(t.Path)
				if tp < 0 || x.S.Faults.ReaderError[tp] || x.S.Faults.PathVanish[tp] || x.S.Faults.Unlisted[pi] {
					continue
				}
				def := *t.DefRangePtr
				if def.End.Byte <= def.Start.Byte {
					continue
				}
				dpos := def.Start.Byte + int(mix(uint64(ti), 9)%uint64(def.End.Byte-def.Start.Byte))
				tf := x.S.Paths[tp].File(def.Filename)
				if tf == nil || dpos > len(tf.Text) {
					continue
				}
				// the position handed to the lookup must be the one the harness derives from the offset
				salt++
				q2 := h.Query{Kind: "find_refs", Path: tp, File: def.Filename, Off: dpos, Order: orderFor(c, salt)}
				r2 := x.Run(q2)
				back, ok := r2.Val.(decoder.ReferenceOrigins)
				if !ok || r2.Panic != nil {
					continue
				}
				// lookups compare positions by byte offset, line and column: when the
				// sets are stale the recomputed line/column may not match the stored ones
				if !x.S.Quiescent() {
					want := h.PosAt(tf.Text, dpos)
					if want.Line < def.Start.Line || want.Line > def.End.Line {
						continue
					}
				}
				x.Cov.Probe("inverse_pairs_checked")
				if tp != pi && x.S.Paths[tp].Path.Path == p.Path.Path {
					x.Cov.Probe("inverse_pairs_between_languages_of_one_directory")
				}
				// find-references reports origins that exist: under the path it names,
				// the stored origin set holds one with that range
				for _, b := range back {
					bi := pathIdx(b.Path)
					if bi < 0 {
						x.Report("phantom-origin", "find_refs", "unknown-path", fmt.Sprintf("find-references at %s:%v (byte %d) reports an origin in %s (%s), which is not a path of the workspace", t.Path.Path, def, dpos, b.Path.Path, b.Path.LanguageID), &q2)
						return
					}
					exists := false
					for _, so := range x.S.Paths[bi].Ctx().ReferenceOrigins {
						if so.OriginRange() == b.Range {
							exists = true
							break
						}
					}
					if !exists {
						x.Report("phantom-origin", "find_refs", "", fmt.Sprintf("find-references at %s:%v (byte %d) reports an origin at %v of path %s (%s); no origin with that range is stored for that path", t.Path.Path, def, dpos, b.Range, b.Path.Path, b.Path.LanguageID), &q2)
						return
					}
				}
				// (i') the converse: an origin find-references reports for this
				// declaration must, asked for its definition, report this declaration
				for bi2, b := range back {
					if bi2 >= 3 {
						break
					}
					bp := pathIdx(b.Path)
					if bp < 0 || x.S.Faults.ReaderError[bp] || x.S.Faults.PathVanish[bp] {
						continue
					}
					bf := x.S.Paths[bp].File(b.Range.Filename)
					if bf == nil || b.Range.Start.Byte > len(bf.Text) || !x.S.Quiescent() {
						continue
					}
					salt++
					q3 := h.Query{Kind: "goto_def", Path: bp, File: b.Range.Filename, Off: b.Range.Start.Byte, Order: orderFor(c, salt)}
					r3 := x.Run(q3)
					fwd, ok := r3.Val.(decoder.ReferenceTargets)
					if !ok || r3.Panic != nil {
						continue
					}
					x.Cov.Probe("converse_pairs_checked")
					// the declarations asked about: the innermost stored targets at the
					// position, with everything nested in them (find-references on a
					// block covers references to its parts)
					asked := map[hcl.Range]bool{}
					inner, _ := x.S.Paths[tp].Ctx().ReferenceTargets.InnermostAtPos(def.Filename, h.PosAt(tf.Text, dpos))
					var addAll func(ts reference.Targets, depth int)
					addAll = func(ts reference.Targets, depth int) {
						for _, it := range ts {
							if it.RangePtr != nil {
								asked[*it.RangePtr] = true
							}
							if depth < 12 {
								addAll(it.NestedTargets, depth+1)
							}
						}
					}
					addAll(inner, 0)
					hit := false
					for _, ft := range fwd {
						if ft != nil && ft.Path.Equals(t.Path) && asked[ft.Range] {
							hit = true
							break
						}
					}
					if !hit {
						x.Report("not-inverse", "goto_def", "converse", fmt.Sprintf("find-references at the declaration %s:%v (byte %d) reports the origin %s:%v, but go-to-definition asked at that origin returns %d declaration(s) without it", t.Path.Path, t.Range, dpos, b.Path.Path, b.Range, len(fwd)), &q3)
						return
					}
				}
				found := false
				for _, b := range back {
					if b.Path.Equals(p.Path) && b.Range == t.OriginRange {
						found = true
						break
					}
				}
				if !found {
					x.Report("not-inverse", "find_refs", fmt.Sprintf("%T", org), fmt.Sprintf("go-to-definition from %s (%s) at %s:%v reports the declaration at %s:%v (def %v), but find-references asked there (byte %d) returns %d origins without it", addr, fmt.Sprintf("%T", org), p.Path.Path, rng, t.Path.Path, t.Range, def, dpos, len(back)), &q2)
					return
				}
			}
		}
	}
}

// declaredAbsolutely: some stored target with that range has an absolute
// address rooted at the given name.
func declaredAbsolutely(ts reference.Targets, root string, rng hcl.Range, depth int) bool {
	if depth > 12 {
		return false
	}
	for _, t := range ts {
		if t.RangePtr != nil && *t.RangePtr == rng && len(t.Addr) > 0 {
			if rs, ok := t.Addr[0].(lang.RootStep); ok && rs.Name == root {
				return true
			}
		}
		if declaredAbsolutely(t.NestedTargets, root, rng, depth+1) {
			return true
		}
	}
	return false
}

// stepPrefix: every step of decl equals the step of ref at the same place
// (same kind, same name or key).
func stepPrefix(decl, ref lang.Address) bool {
	if len(decl) == 0 || len(decl) > len(ref) {
		return false
	}
	for i := range decl {
		if fmt.Sprintf("%T|%s", decl[i], decl[i].String()) != fmt.Sprintf("%T|%s", ref[i], ref[i].String()) {
			return false
		}
	}
	return true
}
