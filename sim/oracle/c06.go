package oracle

import (
	"fmt"
	"regexp"
	"sort"
	"strconv"
	"strings"

	"github.com/hashicorp/hcl-lang/lang"
	"github.com/hashicorp/hcl/v2"

	h "lssim/harness"
	"lssim/world"
)

// C06: completion items are applicable edits; lists honour the limit and the
// 'complete' flag. Per candidate: edit names the requested file, range well
// formed, starts at or before the cursor and reaches it (only blanks between
// its end and the cursor), plain text without tab-stop syntax, snippet with
// consecutive tab stops each at most once. Per list: len <= limit; marked
// complete only if nothing was left out - decided differentially: the same
// request with the limit knob lifted shows how many candidates match - and no
// hook is configured for the attribute at the cursor.
type C06 struct{ base }

func init() { registry["C06"] = func() h.Oracle { return &C06{} } }

func (*C06) Property() string { return "C06" }

var reStop = regexp.MustCompile(`\$\{(\d+)(?::[^}]*)?\}|\$(\d+)`)

// tabStops returns the tab-stop numbers in order of appearance.
func tabStops(s string) []int {
	var out []int
	for _, m := range reStop.FindAllStringSubmatch(s, -1) {
		d := m[1]
		if d == "" {
			d = m[2]
		}
		n, _ := strconv.Atoi(d)
		out = append(out, n)
	}
	return out
}

func snippetProblem(s string) string {
	stops := tabStops(s)
	seen := map[int]int{}
	max, min := 0, 0
	for _, n := range stops {
		seen[n]++
		if n > max {
			max = n
		}
		if n > 0 && (min == 0 || n < min) {
			min = n
		}
	}
	// consecutive numbers, each at most once; the statement does not fix the
	// first number (a label candidate continues after the label being typed)
	// and sets the final stop ${0} aside
	for n := min; n <= max && n > 0; n++ {
		if seen[n] == 0 {
			return fmt.Sprintf("tab stop %d missing (stops %v)", n, stops)
		}
		if seen[n] > 1 {
			return fmt.Sprintf("tab stop %d used %d times (stops %v)", n, seen[n], stops)
		}
	}
	return ""
}

// hookedAttrAt reports whether the cursor lies in the value of an attribute
// whose (generated) schema configures completion hooks; unknown = false.
func hookedAttrAt(f *h.FileState, spec *world.PathSpec, off int) (known, hooked bool) {
	if f.Rendered == nil || !f.ParseOK {
		return false, false
	}
	for _, n := range f.Rendered.Nodes {
		if n == nil || n.Kind != "attr" {
			continue
		}
		if off >= n.Value.Start && off <= n.Value.End {
			// only top-level attributes: their schema is known without the
			// effective-schema model (nested ones are decided by C07's model)
			if n.Parent != 0 || spec.Schema == nil {
				return false, false
			}
			a := spec.Schema.Attr(n.Item.Attr.Name)
			return a != nil, a != nil && len(a.Hooks) > 0
		}
	}
	return false, false
}

func anyAttrHooked(b *world.BodySpec, name string) bool {
	if b == nil {
		return false
	}
	if a := b.Attr(name); a != nil && len(a.Hooks) > 0 {
		return true
	}
	if b.Any != nil && len(b.Any.Hooks) > 0 {
		return true
	}
	for _, bl := range b.Blocks {
		if anyAttrHooked(bl.Body, name) {
			return true
		}
		for _, d := range bl.Dep {
			if anyAttrHooked(d.Body, name) {
				return true
			}
		}
	}
	return false
}

func (o *C06) Check(x *h.Exec, ev *h.Event) {
	if !x.S.Quiescent() {
		return
	}
	c := ev.Check
	limit := uint(100)
	if c != nil && c.Limit != 0 {
		limit = c.Limit
	}
	judge := func(q h.Query) bool {
		q.Limit = limit
		if limit == 100 {
			q.Limit = 0
		}
		q.Order = orderFor(c, uint64(q.Off)+1)
		r := x.Run(q)
		cands, ok := r.Val.(lang.Candidates)
		if !ok || r.Panic != nil {
			return false
		}
		p := x.S.Paths[q.Path]
		f := p.File(q.File)
		if f == nil {
			return false
		}
		rep := func(clause, shape, detail string) bool {
			x.Report(clause, "completion", shape, detail, &q)
			return true
		}
		if uint(len(cands.List)) > limit {
			x.Cov.Probe("over_limit")
			return rep("over-limit", "", fmt.Sprintf("%d candidates with a limit of %d", len(cands.List), limit))
		}
		for i, cd := range cands.List {
			te := cd.TextEdit
			kind := fmt.Sprintf("kind%d", cd.Kind)
			if te.Range.Filename != q.File {
				return rep("edit-file", kind, fmt.Sprintf("candidate %d %q edits %q, requested %q", i, cd.Label, te.Range.Filename, q.File))
			}
			s, e := te.Range.Start.Byte, te.Range.End.Byte
			if te.Range.End == (hcl.Pos{}) && s > 0 {
				// end left at 0,0 by the parser's recovery of an unterminated construct
				return rep("edit-range-zero-end", kind, fmt.Sprintf("candidate %d %q: range %v (bytes %d..%d, file %d bytes)", i, cd.Label, te.Range, s, e, len(f.Text)))
			}
			if s < 0 || e > len(f.Text) || s > e {
				return rep("edit-range-malformed", kind, fmt.Sprintf("candidate %d %q: range %v (bytes %d..%d, file %d bytes)", i, cd.Label, te.Range, s, e, len(f.Text)))
			}
			if s > q.Off {
				return rep("edit-starts-after-cursor", kind, fmt.Sprintf("candidate %d %q: range %v starts after the cursor at byte %d", i, cd.Label, te.Range, q.Off))
			}
			if e < q.Off && strings.TrimLeft(string(f.Text[e:q.Off]), " \t") != "" {
				return rep("edit-stops-before-cursor", kind, fmt.Sprintf("candidate %d %q: range %v ends at %d, cursor at %d, text between: %q", i, cd.Label, te.Range, e, q.Off, f.Text[e:q.Off]))
			}
			if cd.ResolveHook == nil && cd.Detail != "hook" {
				if st := tabStops(te.NewText); len(st) > 0 {
					return rep("newtext-has-tabstops", kind, fmt.Sprintf("candidate %d %q: NewText %q", i, cd.Label, te.NewText))
				}
				if pr := snippetProblem(te.Snippet); pr != "" {
					return rep("snippet-numbering", kind, fmt.Sprintf("candidate %d %q (prefill=%v): %s\nsnippet: %q", i, cd.Label, q.Prefill, pr, te.Snippet))
				}
			}
		}
		if len(cands.List) > 0 {
			x.Cov.Probe("nonempty_lists")
		}
		// completeness: compare with the limit lifted
		if cands.IsComplete {
			if known, hooked := hookedAttrAt(f, p.Spec, q.Off); known && hooked && len(x.Sc.World.Hooks) > 0 {
				// a hook is configured for the attribute being completed
				names := hookNamesAt(f, p.Spec, q.Off)
				for _, hn := range names {
					for _, hs := range x.Sc.World.Hooks {
						if hs.Name == hn {
							return rep("complete-with-hook", "", fmt.Sprintf("list of %d marked complete although hook %q is configured for the attribute", len(cands.List), hn))
						}
					}
				}
			}
			q2 := q
			q2.Limit = 100000
			r2 := x.Run(q2)
			if c2, ok := r2.Val.(lang.Candidates); ok && r2.Panic == nil {
				if len(c2.List) > len(cands.List) {
					x.Cov.Probe("truncation_happened")
					return rep("complete-but-truncated", "", fmt.Sprintf("limit %d: %d candidates marked complete, but %d match when the limit is lifted", limit, len(cands.List), len(c2.List)))
				}
			}
		} else {
			x.Cov.Probe("incomplete_lists")
		}
		return false
	}
	for pi, p := range x.S.Paths {
		if c != nil && c.Offsets != nil && pi != ev.Path {
			continue
		}
		for _, f := range p.Files {
			if c != nil && c.Offsets != nil && ev.File != "" && f.Name != ev.File {
				continue
			}
			for _, off := range x.Offsets(f, c, 2) {
				for _, pre := range []bool{false, true} {
					if c != nil && c.Prefill != nil && *c.Prefill != pre {
						continue
					}
					if judge(h.Query{Kind: "completion", Path: pi, File: f.Name, Off: off, Prefill: pre}) {
						return
					}
				}
			}
		}
	}
}

func hookNamesAt(f *h.FileState, spec *world.PathSpec, off int) []string {
	var out []string
	if f.Rendered == nil || !f.ParseOK {
		return nil
	}
	for _, n := range f.Rendered.Nodes {
		if n == nil || n.Kind != "attr" {
			continue
		}
		if off >= n.Value.Start && off <= n.Value.End && n.Parent == 0 && spec.Schema != nil {
			if a := spec.Schema.Attr(n.Item.Attr.Name); a != nil {
				out = append(out, a.Hooks...)
			}
		}
	}
	sort.Strings(out)
	return out
}

func collectHooks(b *world.BodySpec, name string, out *[]string) {
	if b == nil {
		return
	}
	if a := b.Attr(name); a != nil {
		*out = append(*out, a.Hooks...)
	}
	for _, bl := range b.Blocks {
		collectHooks(bl.Body, name, out)
		for _, d := range bl.Dep {
			collectHooks(d.Body, name, out)
		}
	}
}
