package oracle

import (
	"fmt"
	"sort"
	"strings"

	"github.com/hashicorp/hcl-lang/reference"

	h "lssim/harness"
	"lssim/model"
	"lssim/world"
)

// C10: reference origins are exactly the references written in schema-known
// values. The origin model walks every generated expression under the
// constraint of its attribute (effective schema) and lists the origins the
// statement requires (Must) and the spans it leaves open (May); the collected
// origins must contain every required origin exactly once, nothing outside
// Must and May, and be ordered by file and position.
type C10 struct{ base }

func init() { registry["C10"] = func() h.Oracle { return &C10{} } }

func (*C10) Property() string { return "C10" }

func (o *C10) Check(x *h.Exec, ev *h.Event) {
	c := ev.Check
	for pi, p := range x.S.Paths {
		if p.Spec.Schema == nil {
			continue
		}
		usable := true
		models := map[string]*model.OriginModel{}
		for _, f := range p.Files {
			if f.Rendered == nil || !f.ParseOK || f.Spec == nil || f.Spec.JSON || f.Spec.Raw != nil {
				usable = false
				break
			}
			models[f.Name] = model.Origins(p.Spec.Schema, f.Spec, f.Rendered, p.Spec.Funcs)
		}
		if !usable {
			continue
		}
		for _, ord := range []h.Order{{P: "asc"}, orderFor(c, uint64(pi)+1), {P: "shuffle", Key: mix(uint64(pi), 99)}} {
			q := h.Query{Kind: "origins", Path: pi, Order: ord}
			r := x.Run(q)
			got, ok := r.Val.(reference.Origins)
			if !ok || r.Panic != nil || r.Err != nil {
				continue
			}
			x.Cov.Probe("origin_collections_compared")
			// order
			for i := 1; i < len(got); i++ {
				a, b := got[i-1].OriginRange(), got[i].OriginRange()
				if a.Filename > b.Filename || (a.Filename == b.Filename && a.Start.Byte > b.Start.Byte) {
					x.Report("unordered", "origins", "", fmt.Sprintf("origin %d (%s@%d) precedes origin %d (%s@%d)", i-1, a.Filename, a.Start.Byte, i, b.Filename, b.Start.Byte), &q)
					return
				}
			}
			count := map[string]int{}
			localAt := map[string]bool{}
			type gotO struct {
				key, file  string
				start, end int
				kind       string
			}
			var gs []gotO
			for _, og := range got {
				rg := og.OriginRange()
				g := gotO{file: rg.Filename, start: rg.Start.Byte, end: rg.End.Byte}
				switch v := og.(type) {
				case reference.LocalOrigin:
					g.kind = "L"
					g.key = fmt.Sprintf("L|%d-%d|%s", g.start, g.end, v.Addr.String())
					localAt[fmt.Sprintf("%s|%d-%d", g.file, g.start, g.end)] = true
				case reference.PathOrigin:
					g.kind = "P"
					g.key = fmt.Sprintf("P|%d-%d|%s", g.start, g.end, v.TargetAddr.String())
				case reference.DirectOrigin:
					g.kind = "D"
					g.key = fmt.Sprintf("D|%d-%d|", g.start, g.end)
				}
				count[g.file+"|"+g.key]++
				gs = append(gs, g)
			}
			nMust := 0
			for _, fname := range sortedModelNames(models) {
				m := models[fname]
				for _, mo := range m.Must {
					nMust++
					k := fname + "|" + mo.Key()
					if count[k] != 1 {
						// a required origin inside a May span of an enclosing construct is open
						if inSpansStrict(m.May, mo.Start, mo.End) {
							continue
						}
						x.Report("origin-missing-or-duplicated", "origins", mo.Kind, fmt.Sprintf("%s: the reference %q written at bytes %d..%d must yield exactly one origin, found %d (map order %s)", fname, mo.Addr, mo.Start, mo.End, count[k], ord.P), &q)
						return
					}
				}
			}
			mustKeys := map[string]bool{}
			for fname, m := range models { // maporder:ok (set construction)
				for _, mo := range m.Must {
					mustKeys[fname+"|"+mo.Key()] = true
				}
			}
			for _, g := range gs {
				if mustKeys[g.file+"|"+g.key] {
					continue
				}
				m := models[g.file]
				if m == nil {
					x.Report("origin-foreign-file", "origins", g.kind, fmt.Sprintf("origin %s in %q, which is not a file of the path", g.key, g.file), &q)
					return
				}
				if inSpans(m.May, g.start, g.end) {
					continue
				}
				if g.kind == "P" && localAt[fmt.Sprintf("%s|%d-%d", g.file, g.start, g.end)] {
					continue // implied origin attached to a written reference
				}
				x.Report("origin-unexpected", "origins", g.kind, fmt.Sprintf("%s: origin %s reported, but no reference the schema knows is written there (text %q; map order %s)", g.file, g.key, textAt(p.File(g.file), g.start, g.end), ord.P), &q)
				return
			}
			if nMust > 0 {
				x.Cov.Probe("paths_with_required_origins")
				x.Cov.Probes["required_origins"] += int64(nMust)
			}
			x.Sample(3, "path %s: %d origins collected, %d required by the model", p.Path.Path, len(got), nMust)
		}
	}
}

func sortedModelNames(m map[string]*model.OriginModel) []string {
	var out []string
	for k := range m { // maporder:ok (sorted below)
		out = append(out, k)
	}
	sort.Strings(out)
	return out
}

func inSpans(sp []world.Span, s, e int) bool {
	for _, x := range sp {
		if s >= x.Start && e <= x.End {
			return true
		}
	}
	return false
}

// inSpansStrict: inside a span that is larger than [s,e) itself.
func inSpansStrict(sp []world.Span, s, e int) bool {
	for _, x := range sp {
		if s >= x.Start && e <= x.End && x.End-x.Start > e-s {
			return true
		}
	}
	return false
}

func textAt(f *h.FileState, s, e int) string {
	if f == nil || s < 0 || e > len(f.Text) || s > e {
		return ""
	}
	return strings.TrimSpace(string(f.Text[s:e]))
}
