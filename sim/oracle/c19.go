package oracle

import (
	"fmt"
	"sort"
	"strings"

	"github.com/hashicorp/hcl-lang/decoder"
	"github.com/hashicorp/hcl-lang/reference"
	"github.com/zclconf/go-cty/cty"

	h "lssim/harness"
	"lssim/model"
	"lssim/world"
)

// C19: JSON and native syntax of the same configuration yield the same
// reference graph. For every path whose files lie in the fragment both
// syntaxes express, a twin deployment is built from the same model with the
// files rendered as HCL JSON; collected absolute targets (address, type,
// scope, nesting), origins (addresses) and the symbol outline (names,
// nesting) of the two must agree. Ranges and block-local targets are left out
// as the statement says.
type C19 struct{ base }

func init() { registry["C19"] = func() h.Oracle { return &C19{} } }

func (*C19) Property() string { return "C19" }

func blockLocal(t reference.Target) bool {
	if len(t.LocalAddr) > 0 {
		r := t.LocalAddr[0].String()
		return r == "self" || r == "count" || r == "each"
	}
	return false
}

func targetSig(t reference.Target, depth int) string {
	ty := "nil"
	if t.Type != cty.NilType {
		ty = t.Type.GoString()
	}
	var nested []string
	if depth < 10 {
		for _, n := range t.NestedTargets {
			if len(n.Addr) == 0 {
				continue
			}
			nested = append(nested, targetSig(n, depth+1))
		}
	}
	sort.Strings(nested)
	return fmt.Sprintf("%s|%s|%s{%s}", t.Addr.String(), ty, t.ScopeId, strings.Join(nested, ","))
}

func targetSigs(ts reference.Targets) []string {
	var out []string
	for _, t := range ts {
		if len(t.Addr) == 0 {
			continue // block-local only (count.index, each.*): JSON cannot delimit them
		}
		out = append(out, targetSig(t, 0))
	}
	sort.Strings(out)
	return out
}

func originSigs(os reference.Origins) []string {
	var out []string
	for _, o := range os {
		switch v := o.(type) {
		case reference.LocalOrigin:
			r := ""
			if len(v.Addr) > 0 {
				r = v.Addr[0].String()
			}
			if r == "self" || r == "count" || r == "each" {
				continue
			}
			out = append(out, "L|"+v.Addr.String())
		case reference.PathOrigin:
			out = append(out, "P|"+v.TargetAddr.String()+"|"+v.TargetPath.Path)
		case reference.DirectOrigin:
			out = append(out, "D|"+v.TargetPath.Path)
		}
	}
	sort.Strings(out)
	return out
}

func symbolSigs(ss []decoder.Symbol, depth int) []string {
	var out []string
	for _, s := range ss {
		if s == nil {
			continue
		}
		var nested []string
		switch s.(type) {
		case *decoder.BlockSymbol:
			if depth < 10 {
				nested = symbolSigs(s.NestedSymbols(), depth+1)
			}
		}
		out = append(out, fmt.Sprintf("%T:%s{%s}", s, s.Name(), strings.Join(nested, ",")))
	}
	sort.Strings(out)
	return out
}

func diffSets(a, b []string) string {
	i, j := 0, 0
	var onlyA, onlyB []string
	for i < len(a) || j < len(b) {
		switch {
		case j >= len(b) || (i < len(a) && a[i] < b[j]):
			onlyA = append(onlyA, a[i])
			i++
		case i >= len(a) || b[j] < a[i]:
			onlyB = append(onlyB, b[j])
			j++
		default:
			i++
			j++
		}
	}
	if len(onlyA) == 0 && len(onlyB) == 0 {
		return ""
	}
	return fmt.Sprintf("only in native syntax: %v; only in JSON: %v", short(fmt.Sprint(onlyA), 600), short(fmt.Sprint(onlyB), 600))
}

// jsonTwin builds a one-path deployment from the same model with every file
// rendered as HCL JSON (pretty-printed or on one line).
func jsonTwin(x *h.Exec, p *h.PathState, minified bool) *h.Store {
	tw := &world.World{Hooks: x.Sc.World.Hooks}
	tp := *p.Spec
	tp.Files = nil
	for _, f := range p.Spec.Files {
		nf := *f
		nf.JSON = true
		nf.Name = f.Name + ".json"
		nf.Layout = 0
		if minified {
			nf.Layout = 2
		}
		tp.Files = append(tp.Files, &nf)
	}
	tw.Paths = []*world.PathSpec{&tp}
	return h.NewStore(tw)
}

// twinnable: every file of the path lies in the fragment both syntaxes express.
func twinnable(p *h.PathState) bool {
	if p.Spec.Schema == nil || len(p.Files) == 0 {
		return false
	}
	for _, f := range p.Files {
		if f.Rendered == nil || !f.ParseOK || f.Spec == nil || f.Spec.JSON || f.Spec.Raw != nil || !world.ItemsJSONExpressible(f.Spec.Items) {
			return false
		}
	}
	return true
}

// onlyStringIndexed: every origin present in one syntax only is native-only
// and has a quoted index key.
func onlyStringIndexed(a, b []string) bool {
	inB := map[string]int{}
	for _, s := range b {
		inB[s]++
	}
	inA := map[string]int{}
	for _, s := range a {
		inA[s]++
	}
	n := 0
	for _, s := range b {
		if inA[s] < inB[s] {
			return false
		}
	}
	for _, s := range a {
		if inB[s] < inA[s] {
			if !strings.Contains(s, "[\"") {
				return false
			}
			n++
		}
	}
	return n > 0
}

// attrValueStepsKnown: every attribute-value step of a block address names an
// attribute of that block's static body (JSON cannot see unknown attributes).
func attrValueStepsKnown(b *world.BodySpec) bool {
	if b == nil {
		return true
	}
	for _, bl := range b.Blocks {
		if bl.Addr != nil {
			for _, st := range bl.Addr.Steps {
				if st.K == "attrvalue" && (bl.Body == nil || bl.Body.Attr(st.Name) == nil) {
					return false
				}
			}
		}
		if !attrValueStepsKnown(bl.Body) {
			return false
		}
		for _, d := range bl.Dep {
			if !attrValueStepsKnown(d.Body) {
				return false
			}
		}
	}
	return true
}

func collectLabelCounts(b *world.BodySpec, out map[string]map[int]bool, kinds map[string]map[string]bool, depth int) {
	if b == nil || depth > 12 {
		return
	}
	if b.Any != nil {
		kinds["\x00any-attribute-body"] = map[string]bool{"": true}
	}
	for _, a := range b.Attrs {
		if kinds[a.Name] == nil {
			kinds[a.Name] = map[string]bool{}
		}
		k := ""
		if a.Cons != nil {
			k = a.Cons.K
		}
		kinds[a.Name][k] = true
	}
	for _, bl := range b.Blocks {
		if out[bl.Type] == nil {
			out[bl.Type] = map[int]bool{}
		}
		out[bl.Type][len(bl.Labels)] = true
		collectLabelCounts(bl.Body, out, kinds, depth+1)
		for _, d := range bl.Dep {
			collectLabelCounts(d.Body, out, kinds, depth+1)
		}
	}
}

// collectStepAttrs: names of attributes some block address takes a step from.
func collectStepAttrs(b *world.BodySpec, out map[string]bool, depth int) {
	if b == nil || depth > 12 {
		return
	}
	for _, bl := range b.Blocks {
		if bl.Addr != nil {
			for _, st := range bl.Addr.Steps {
				if st.K == "attrvalue" {
					out[st.Name] = true
				}
			}
		}
		collectStepAttrs(bl.Body, out, depth+1)
		for _, d := range bl.Dep {
			collectStepAttrs(d.Body, out, depth+1)
		}
	}
}

// anyObjectTypes: the types of the any-expressions of object type anywhere in a constraint.
func anyObjectTypes(c *world.ConsSpec, out *[]string, depth int) {
	if c == nil || depth > 8 {
		return
	}
	if c.K == "any" && strings.Contains(c.Type, "object(") {
		*out = append(*out, c.Type)
	}
	anyObjectTypes(c.Elem, out, depth+1)
	for _, e := range c.Elems {
		anyObjectTypes(e, out, depth+1)
	}
	for _, a := range c.Attrs {
		anyObjectTypes(a.Cons, out, depth+1)
	}
}

func anyTypesContaining(c *world.ConsSpec, sub string, out *[]string, depth int) {
	if c == nil || depth > 8 {
		return
	}
	if c.K == "any" && strings.Contains(c.Type, sub) {
		*out = append(*out, c.Type)
	}
	anyTypesContaining(c.Elem, sub, out, depth+1)
	for _, e := range c.Elems {
		anyTypesContaining(e, sub, out, depth+1)
	}
	for _, a := range c.Attrs {
		anyTypesContaining(a.Cons, sub, out, depth+1)
	}
}

func hasKValue(e *world.Expr, k string) bool {
	if e == nil {
		return false
	}
	if e.K == k {
		return true
	}
	for _, a := range e.A {
		if hasKValue(a, k) {
			return true
		}
	}
	return false
}

func (o *C19) Check(x *h.Exec, ev *h.Event) {
	c := ev.Check
	for pi, p := range x.S.Paths {
		if p.Spec.Schema == nil {
			continue
		}
		ok := len(p.Files) > 0
		for _, f := range p.Files {
			switch {
			case f.Rendered == nil || f.Spec == nil || f.Spec.JSON || f.Spec.Raw != nil:
				ok = false
				x.Cov.Probe("outside:file_kind")
			case !f.ParseOK:
				ok = false
				x.Cov.Probe("outside:does_not_parse")
			case !world.ItemsJSONExpressible(f.Spec.Items):
				ok = false
				x.Cov.Probe("outside:items:" + world.WhyNotJSON(f.Spec.Items))
			}
		}
		if !ok {
			x.Cov.Probe("paths_outside_fragment")
			continue
		}
		known, certain0 := schemaKnownNames(p)
		certain := true
		if !attrValueStepsKnown(p.Spec.Schema) {
			certain0 = false
			x.Cov.Probe("uncertain:attrvalue_steps")
		}
		// an address step taken from an attribute value that is not a plain string
		// literal: JSON evaluates "${x}" without variables to the literal text
		// (anywhere, also inside the content of dynamic blocks the model skips)
		stepAttrs := map[string]bool{}
		collectStepAttrs(p.Spec.Schema, stepAttrs, 0)
		// JSON nests blocks by label, so a block written with another number of
		// labels than a schema of that block type declares is another structure.
		// Which schema the library consults depends on the feature (static body
		// for inferred bodies, merged body elsewhere) and the content of dynamic
		// blocks is not modelled: any declaration of the type anywhere counts.
		lc := map[string]map[int]bool{}
		attrKinds := map[string]map[string]bool{}
		collectLabelCounts(p.Spec.Schema, lc, attrKinds, 0)
		// inside the content of dynamic blocks (which the model skips): an item
		// written as the other kind than some body declares under that name
		var dynWalk func(items []*world.Item, inDyn bool)
		dynWalk = func(items []*world.Item, inDyn bool) {
			for _, it := range items {
				if inDyn {
					if it.Attr != nil && len(lc[it.Attr.Name]) > 0 {
						certain = false
					}
					if it.Block != nil && len(attrKinds[it.Block.Type]) > 0 {
						certain = false
					}
				}
				if it.Block != nil {
					dynWalk(it.Block.Body, inDyn || it.Block.Type == "dynamic")
				}
			}
		}
		for _, f := range p.Files {
			dynWalk(f.Spec.Items, false)
		}
		for _, f := range p.Files {
			world.WalkItems(f.Spec.Items, func(it *world.Item, d int) {
				if it.Block == nil || it.Block.Type == "dynamic" || it.Block.Type == "content" {
					return
				}
				// a block of a type no body declares, in a schema that has
				// any-attribute bodies: JSON may read it as an attribute (also
				// inside the content of dynamic blocks, which the model skips)
				if len(lc[it.Block.Type]) == 0 && attrKinds["\x00any-attribute-body"] != nil {
					certain = false
				}
				for n := range lc[it.Block.Type] { // maporder:ok (any mismatch)
					if n != len(it.Block.Labels) {
						certain = false
					}
				}
			})
		}
		for _, f := range p.Files {
			world.WalkItems(f.Spec.Items, func(it *world.Item, d int) {
				if it.Attr != nil && stepAttrs[it.Attr.Name] && (it.Attr.Expr == nil || it.Attr.Expr.K != "str" || strings.Contains(it.Attr.Expr.S, "${")) {
					certain = false
				}
			})
		}
		for _, f := range p.Files {
			model.Walk(p.Spec.Schema, f.Spec.Items, func(mc *model.Ctx) {
				// a block written in a body that accepts any attribute cannot be told
				// from an attribute in JSON
				// (a block type the body declares is told apart by the schema)
				if mc.Body != nil && mc.Body.Any != nil {
					for _, it := range mc.Items {
						if it.Block != nil && mc.Body.Block(it.Block.Type) == nil {
							certain = false
						}
					}
				}
				if mc.Body != nil {
					// a name the effective schema declares both as attribute and as
					// block (static body vs dependent body) is ambiguous in JSON
					for _, bl := range mc.Body.Blocks {
						if mc.Body.Attr(bl.Type) != nil {
							certain = false
						}
					}
					// an item written as the other kind than the schema declares
					// (block under an attribute's name or the reverse) reads as the
					// declared kind in JSON
					for _, it := range mc.Items {
						if it.Block != nil && mc.Body.Attr(it.Block.Type) != nil {
							certain = false
						}
						if it.Attr != nil && mc.Body.Block(it.Attr.Name) != nil {
							certain = false
						}
					}
					// JSON has no keywords: "auto" is a string as well, so under
					// anything but a plain keyword constraint the twin is another value
					for _, it := range mc.Items {
						if it.Attr == nil {
							continue
						}
						a := mc.Body.Attr(it.Attr.Name)
						// (static and dependent bodies may declare the name differently
						// and features consult either: every declaration counts)
						for k := range attrKinds[it.Attr.Name] { // maporder:ok (any mismatch)
							if (hasKValue(it.Attr.Expr, "kw") && k != "kw") || (hasKValue(it.Attr.Expr, "type") && k != "typedecl") {
								certain = false
							}
						}
						if hasKValue(it.Attr.Expr, "kw") && (a == nil || a.Cons == nil || a.Cons.K != "kw") {
							certain = false
						}
						// the same for type expressions: "number" is a string in JSON,
						// a bare word (reference) in native syntax
						if hasKValue(it.Attr.Expr, "type") && (a == nil || a.Cons == nil || a.Cons.K != "typedecl") {
							certain = false
						}
						// an object written under an any-expression of an object type with
						// a key the type does not declare: native syntax decodes the object
						// item by item and skips that one, JSON (no structural access)
						// reports every variable - precision the statement leaves open
						ao := a
						if ao == nil {
							ao = mc.Body.Any // the any-attribute of the body stands in
						}
						if ao != nil && ao.Cons != nil {
							// a tuple-typed any-expression: native syntax decodes a written
							// tuple element by element as literals (no origins inside), JSON
							// reports every variable - left open for the same reason
							var tupTypes []string
							anyTypesContaining(ao.Cons, "tuple(", &tupTypes, 0)
							if len(tupTypes) > 0 && hasKValue(it.Attr.Expr, "list") {
								certain = false
							}
							var objTypes []string
							anyObjectTypes(ao.Cons, &objTypes, 0)
							if len(objTypes) > 0 {
								it.Attr.Expr.Walk(func(e *world.Expr) {
									if e.K != "obj" {
										return
									}
									for _, k := range e.Keys {
										if k.K != "str" && k.K != "kw" {
											continue
										}
										declared := false
										for _, t := range objTypes {
											if strings.Contains(t, k.S+"=") {
												declared = true
											}
										}
										if !declared {
											certain = false
										}
									}
								})
							}
						}
					}
				}
				if mc.Block == nil || mc.Block.Addr == nil {
					return
				}
				for _, st := range mc.Block.Addr.Steps {
					if st.K != "attrvalue" {
						continue
					}
					for _, it := range mc.Items {
						if it.Attr != nil && it.Attr.Name == st.Name && (it.Attr.Expr == nil || it.Attr.Expr.K != "str" || strings.Contains(it.Attr.Expr.S, "${")) {
							certain = false
						}
					}
				}
			})
		}
		if !certain {
			x.Cov.Probe("uncertain:model")
		} else if !certain0 {
			x.Cov.Probe("uncertain:" + whyUncertain)
		}
		if !certain || !certain0 {
			// label counts that differ from the schema or key attributes written
			// as references: what JSON decodes there is not defined
			x.Cov.Probe("paths_uncertain")
			continue
		}
		x.Cov.Probe("paths_compared")
		// the twin: same model, files rendered as JSON
		var key uint64
		if c != nil {
			key = c.Key
		}
		twin := jsonTwin(x, p, mix(key, uint64(pi))%2 == 0)
		for _, tf := range twin.Paths[0].Files {
			if !tf.ParseOK {
				x.Report("twin-unparseable", "render", "", fmt.Sprintf("internal: JSON rendering of %s does not parse: %s", tf.Name, short(string(tf.Text), 300)), nil)
				return
			}
		}
		for k, kind := range []string{"targets", "origins", "symbols_ws"} {
			ord := orderFor(c, uint64(pi*7+k)+1)
			qn := h.Query{Kind: kind, Path: pi, Order: ord}
			rn := x.Run(qn)
			rj := twin.Exec(h.Query{Kind: kind, Path: 0, Order: ord})
			x.Cov.Evaluations++
			x.Cov.ByKind[kind]++
			if rj.Panic != nil && rn.Panic == nil {
				x.Report("json-panics", kind, rj.Panic.Func, fmt.Sprintf("%s of path %s: the JSON rendering makes the library panic (%s), native syntax does not\n%s", kind, p.Path.Path, rj.Panic.Msg, short(rj.Panic.Stack, 1500)), &qn)
				return
			}
			if rn.Panic != nil || rj.Panic != nil || rn.Err != nil || rj.Err != nil {
				if (rn.Err == nil) != (rj.Err == nil) {
					x.Report("error-differs", kind, "", fmt.Sprintf("%s: native err=%v, JSON err=%v", kind, rn.Err, rj.Err), &qn)
					return
				}
				continue
			}
			var a, b []string
			switch kind {
			case "targets":
				a, b = targetSigs(rn.Val.(reference.Targets)), targetSigs(rj.Val.(reference.Targets))
			case "origins":
				a, b = originSigs(rn.Val.(reference.Origins)), originSigs(rj.Val.(reference.Origins))
				// a string literal written where a reference is expected reads as a
				// legacy bare reference in JSON; native syntax keeps it a string. The
				// two renderings are not the same configuration there.
				lits := map[string]bool{}
				for _, f := range p.Spec.Files {
					world.WalkItems(f.Items, func(it *world.Item, d int) {
						if it.Attr != nil {
							it.Attr.Expr.Walk(func(e *world.Expr) {
								if e.K == "str" || e.K == "kw" {
									lits["L|"+e.S] = true
								}
								if e.K == "raw" {
									if v, ok := world.RawLiteralString(e.S); ok {
										lits["L|"+v] = true
									}
								}
							})
						}
					})
				}
				inA := map[string]int{}
				for _, s := range a {
					inA[s]++
				}
				var fb []string
				kept := map[string]int{}
				for _, s := range b {
					if lits[s] && kept[s] >= inA[s] {
						continue // surplus copies: legacy reading of a string literal
					}
					kept[s]++
					fb = append(fb, s)
				}
				b = fb
			case "symbols_ws":
				// only this path's symbols
				var na []decoder.Symbol
				for _, s := range rn.Val.([]decoder.Symbol) {
					if s.Path().Equals(p.Path) {
						na = append(na, s)
					}
				}
				// JSON is decoded through the schema: the native outline restricted to
				// the items the effective schema knows at their place (model) is what
				// the JSON rendering must show
				nat := map[string]int{}
				for _, n := range symNames(na) {
					nat[n]++
				}
				for _, n := range known {
					if nat[n] > 0 {
						nat[n]--
						a = append(a, n)
					} else {
						a = append(a, n+" <not in the native outline>")
					}
				}
				for _, n := range symNames(rj.Val.([]decoder.Symbol)) {
					if i := strings.Index(n, "dynamic \""); i >= 0 && strings.Contains(n[i:], "/") {
						continue
					}
					b = append(b, n)
				}
				sort.Strings(a)
				sort.Strings(b)
			}
			if len(a) > 0 {
				x.Cov.Probe("nonempty_" + kind)
			}
			if d := diffSets(a, b); d != "" {
				shape := ""
				if kind == "origins" && onlyStringIndexed(a, b) {
					// references with a quoted index key inside a JSON string: the
					// escaped quotes defeat the library's range-based guess that the
					// string holds exactly one traversal (recorded finding)
					shape = "string-index-key"
				}
				x.Report("syntaxes-disagree", kind, shape, fmt.Sprintf("%s of path %s differ between native syntax and JSON: %s", kind, p.Path.Path, d), &qn)
				return
			}
		}
		x.Sample(3, "path %s: %d file(s) rendered to both syntaxes and compared (targets, origins, outline)", p.Path.Path, len(p.Files))
	}
}
