package oracle

import (
	"fmt"
	"strings"

	"github.com/hashicorp/hcl/v2"

	"lssim/deep"
	h "lssim/harness"
)

// C18: results move with the text. The check event names a file, an insertion
// point (before top-level item k, or after the last) and the lines to insert.
// The oracle records every query result on the quiescent original, applies the
// translation edit, lets the indexer catch up, and compares every result with
// the original one mapped through the shift of the edit.
type C18 struct{ base }

func init() { registry["C18"] = func() h.Oracle { return &C18{} } }

func (*C18) Property() string { return "C18" }

func (o *C18) Check(x *h.Exec, ev *h.Event) {
	c := ev.Check
	if c == nil || ev.Path >= len(x.S.Paths) {
		return
	}
	p := x.S.Paths[ev.Path]
	f := p.File(ev.File)
	if f == nil || f.Full == nil || f.Rendered == nil || len(f.Full.InsertPoints) == 0 || strings.HasSuffix(f.Name, ".json") {
		return
	}
	x.S.Quiesce()
	k := int(c.Key % uint64(len(f.Full.InsertPoints)))
	if ev.BeforeItem > 0 || c.Key == 0 {
		k = ev.BeforeItem % len(f.Full.InsertPoints)
	}
	at := f.Full.InsertPoints[k]
	if at == 0 {
		// At byte 0 the root body's range (which keeps starting at 0) and the
		// first item's range (which moves) cannot be told apart by position:
		// use the next insertion point.
		if len(f.Full.InsertPoints) < 2 {
			return
		}
		k = 1 + int(c.Key%uint64(len(f.Full.InsertPoints)-1))
		at = f.Full.InsertPoints[k]
		if at == 0 {
			return
		}
	}
	lines := c.Args
	if len(lines) == 0 {
		lines = []string{""}
	}
	ins := strings.Join(lines, "\n") + "\n"
	orig := append([]byte(nil), f.Text...)
	if at == len(orig) && at > 0 && orig[at-1] != '\n' {
		return // the last line has no newline: appending would change it
	}
	nl, nb := len(lines), len(ins)

	type rec struct {
		q h.Query
		r *h.Result
	}
	var before []rec
	collect := func(store *[]rec, shiftOff func(int) int) {
		salt := uint64(0)
		run := func(q h.Query) {
			salt++
			q.Order = orderFor(c, salt)
			*store = append(*store, rec{q, x.Run(q)})
		}
		for _, kd := range []string{"targets", "origins", "validate", "symbols_ws", "writeonly"} {
			run(h.Query{Kind: kd, Path: ev.Path})
		}
		for _, ff := range p.Files {
			for _, kd := range []string{"tokens", "symbols_file", "links", "validate_file"} {
				run(h.Query{Kind: kd, Path: ev.Path, File: ff.Name})
			}
		}
		// offsets are always derived from the ORIGINAL text
		of := &h.FileState{Name: f.Name, Text: orig}
		for _, off := range x.Offsets(of, &h.Check{Stride: max(c.Stride, 1), Offsets: c.Offsets}, 1) {
			for _, kd := range []string{"completion", "hover", "signature", "goto_def", "find_refs"} {
				if len(c.Kinds) > 0 && !has(c.Kinds, kd) {
					continue
				}
				q := h.Query{Kind: kd, Path: ev.Path, File: f.Name, Off: shiftOff(off)}
				if c.Prefill != nil {
					q.Prefill = *c.Prefill
				}
				run(q)
			}
		}
	}
	collect(&before, func(o int) int { return o })

	// apply the translation
	newText := append(append(append([]byte(nil), orig[:at]...), ins...), orig[at:]...)
	x.S.SetText(ev.Path, f.Name, newText)
	x.S.Quiesce()
	var after []rec
	collect(&after, func(o int) int {
		if o >= at {
			return o + nb
		}
		return o
	})
	// restore
	x.S.SetText(ev.Path, f.Name, orig)
	x.S.Quiesce()

	shiftPos := func(file string, ps hcl.Pos) hcl.Pos {
		if file == f.Name && ps.Byte >= at {
			ps.Byte += nb
			ps.Line += nl
		}
		return ps
	}
	opts := deep.Options{
		RangeMap: func(r hcl.Range) (hcl.Range, bool) {
			if r.Filename != f.Name {
				return r, false
			}
			return r, false
		},
		PosMap: shiftPos,
	}
	if len(before) != len(after) {
		x.Report("internal", "c18", "", "query lists differ", nil)
		return
	}
	x.Sample(3, "translate %s: insert %d line(s) %q before top-level item %d (byte %d); %d queries compared", f.Name, nl, lines, k, at, len(before))
	for i := range before {
		b, a := before[i], after[i]
		if b.r.Panic != nil || a.r.Panic != nil || b.r.Budget || a.r.Budget {
			continue
		}
		cb := b.r.CanonOpts(opts, true)
		ca := a.r.CanonOpts(deep.Options{}, true)
		if cb != ca {
			q := a.q
			x.Report("not-equivariant", b.q.Kind, diffShape(cb, ca),
				fmt.Sprintf("inserting %d line(s) %q at byte %d of %s: %s at original offset %d changed beyond the shift: %s", nl, lines, at, f.Name, b.q.Kind, b.q.Off, firstDiff(cb, ca)), &q)
			return
		}
	}
}
