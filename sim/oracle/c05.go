package oracle

import (
	"fmt"
	"regexp"
	"strings"

	h "lssim/harness"
)

// C05: concurrent queries on a shared path context are race-free and match
// sequential. Rounds of tasks run under the scenario's schedule (one task at a
// time, pre-empted at instrumented tick points); three oracles:
//   - race: the Go race detector with the scheduler's hand-off synchronisation
//     hidden, so conflicting accesses of two tasks are reported whatever the
//     interleaving;
//   - result: every task result equals the same query run alone beforehand;
//   - snapshot: the shared roots are structurally unchanged at every switch.
type C05 struct {
	base
	rounds int
}

func init() { registry["C05"] = func() h.Oracle { return &C05{} } }

func (*C05) Property() string { return "C05" }

func (o *C05) Check(x *h.Exec, ev *h.Event) {}

var reRaceFrame = regexp.MustCompile(`(?m)^\s+((?:github\.com/hashicorp/|github\.com/zclconf/|lssim/harness\.\(\*Store\)\.runHook)\S*?)\(\)$`)

var reAnyFrame = regexp.MustCompile(`(?m)^  (\S+)\(\)$`)

// libraryReport: the first report of the log in which at least one access is
// made directly by library code (its innermost non-runtime frame belongs to
// hashicorp/zclconf/apparentlymart code). Reports about objects recycled
// through sync.Pool inside the standard library (fmt, regexp) have standard
// library frames on top of both stacks and are not the library's doing.
func libraryReport(log string) string {
	parts := strings.Split(log, "==================")
	for _, rep := range parts {
		if !strings.Contains(rep, "WARNING: DATA RACE") {
			continue
		}
		for _, sec := range strings.Split(rep, "\n\n") {
			t := strings.TrimSpace(strings.TrimPrefix(strings.TrimSpace(sec), "WARNING: DATA RACE"))
			if !(strings.HasPrefix(t, "Write at") || strings.HasPrefix(t, "Read at") || strings.HasPrefix(t, "Previous write at") || strings.HasPrefix(t, "Previous read at")) {
				continue
			}
			for _, m := range reAnyFrame.FindAllStringSubmatch(sec, -1) {
				f := m[1]
				if strings.HasPrefix(f, "runtime.") || strings.HasPrefix(f, "internal/") {
					continue
				}
				if strings.HasPrefix(f, "github.com/hashicorp/") || strings.HasPrefix(f, "github.com/zclconf/") || strings.HasPrefix(f, "github.com/apparentlymart/") || strings.HasPrefix(f, "lssim/") {
					return rep
				}
				break
			}
		}
	}
	return ""
}

// raceSites extracts, for a report, the innermost library frame of each of
// the two conflicting accesses and whether each is a write.
func raceSites(rep string) (sites []string, writes []bool) {
	secs := strings.Split(rep, "\n\n")
	for _, s := range secs {
		t := strings.TrimSpace(s)
		if strings.HasPrefix(t, "WARNING: DATA RACE") {
			t = strings.TrimSpace(strings.TrimPrefix(t, "WARNING: DATA RACE"))
		}
		isW := strings.HasPrefix(t, "Write at") || strings.HasPrefix(t, "Previous write at")
		isR := strings.HasPrefix(t, "Read at") || strings.HasPrefix(t, "Previous read at")
		if !isW && !isR {
			continue
		}
		f := "?"
		if m := reRaceFrame.FindStringSubmatch(s); m != nil {
			f = strings.TrimPrefix(m[1], "github.com/hashicorp/")
			f = strings.TrimPrefix(f, "github.com/")
			f = reClosureSuffix.ReplaceAllString(f, "")
		}
		sites = append(sites, f)
		writes = append(writes, isW)
	}
	for len(sites) < 2 {
		sites = append(sites, "?")
		writes = append(writes, false)
	}
	return
}

var reClosureSuffix = regexp.MustCompile(`(-range[0-9]+|\.func[0-9]+(\.[0-9]+)*)+$`)

func (o *C05) Round(x *h.Exec, ev *h.Event) {
	r := ev.Round
	if r == nil || len(r.Tasks) == 0 {
		return
	}
	// solo baselines, computed before any task exists. Every other round they
	// are computed on a twin store in the same state (own schema objects, own
	// decoder context): what a request does to shared state - say, on the first
	// failing hook - then happens inside the concurrent round, where the race
	// detector and the result comparison can see it, not during the baseline.
	// The queries still run here once first (on the round's own store in the
	// other rounds) so that lazy initialisation inside dependencies is over.
	solo := make([][]string, len(r.Tasks))
	base := x.S
	if o.rounds%2 == 1 {
		base = x.Twin()
		x.Cov.Probe("solo_baseline_on_twin_store")
	}
	o.rounds++
	for i, qs := range r.Tasks {
		for _, q := range qs {
			var res *h.Result
			if base == x.S {
				res = x.Run(q)
			} else {
				res = base.Exec(q)
				x.Cov.Evaluations++
			}
			solo[i] = append(solo[i], res.Canon())
		}
	}
	rr := x.S.RunRound(r, true)
	x.Cov.Switches += int64(rr.Switches)
	x.Cov.Interleave[hashInts(rr.Decisions)] = true
	if rr.Switches > 0 {
		x.S.Stats.Fire("preempt")
	}
	x.Sample(4, "round: %d tasks, %d queries, %d context switches, decisions=%v", len(r.Tasks), countQ(r), rr.Switches, head(rr.Decisions, 24))
	if strings.Contains(rr.RaceLog, "DATA RACE") {
		x.Cov.Probe("race_reports_seen")
	}
	if rep := libraryReport(rr.RaceLog); rep != "" {
		sites, writes := raceSites(rep)
		// the finding is identified by the function that performs the write
		// (the lexicographically smaller one if both accesses are writes)
		site := ""
		for i := 0; i < 2; i++ {
			if writes[i] && (site == "" || sites[i] < site) {
				site = sites[i]
			}
		}
		x.Report("data-race", site, "write", "other access: "+sites[0]+" / "+sites[1]+"\nrace detector report during a concurrent round (hand-off synchronisation hidden):\n"+short(rep, 3500), nil)
		return
	}
	for _, d := range rr.SnapDiffs {
		f := strings.SplitN(d, "\n", 2)[0]
		x.Report("shared-state-changed", "round", f, "shared roots changed during a concurrent round:\n"+d, nil)
		return
	}
	for i, qs := range r.Tasks {
		for j := range qs {
			if i >= len(rr.Results) || j >= len(rr.Results[i]) {
				x.Report("missing-result", qs[j].Kind, "", fmt.Sprintf("task %d query %d produced no result", i, j), &qs[j])
				return
			}
			x.Cov.Evaluations++
			x.Cov.ByKind[qs[j].Kind]++
			got := rr.Results[i][j].Canon()
			if got != solo[i][j] {
				q := qs[j]
				x.Report("result-differs", q.Kind, diffShape(solo[i][j], got),
					fmt.Sprintf("task %d %s differs from the same query run alone: %s", i, q.Kind, firstDiff(solo[i][j], got)), &q)
				return
			}
		}
	}
}

func countQ(r *h.Round) int {
	n := 0
	for _, t := range r.Tasks {
		n += len(t)
	}
	return n
}

func head(a []int, n int) []int {
	if len(a) > n {
		return a[:n]
	}
	return a
}

func hashInts(a []int) [8]byte {
	var s strings.Builder
	for _, v := range a {
		fmt.Fprintf(&s, "%d,", v)
	}
	return h8(s.String())
}
