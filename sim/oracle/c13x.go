package oracle

import (
	"fmt"
	"sort"
	"strings"

	"github.com/hashicorp/hcl-lang/decoder"
	"github.com/hashicorp/hcl-lang/lang"

	h "lssim/harness"
	"lssim/model"
	"lssim/world"
)

// C13 exactness on generated configurations (indexer caught up):
//   - the attribute-name, block-type and label tokens are exactly those of the
//     items the effective schema knows, each with the modifiers of the element
//     and of all enclosing blocks, in that order; none for unknown attributes,
//     unknown blocks and surplus labels;
//   - a plain reference written as the value of an any-expression/reference
//     attribute has reference-step tokens iff go-to-definition resolves it.
func (o *C13) exact(x *h.Exec, ev *h.Event) bool {
	c := ev.Check
	for pi, p := range x.S.Paths {
		if p.Spec.Schema == nil {
			continue
		}
		for _, f := range p.Files {
			if f.Rendered == nil || !f.ParseOK || f.Spec == nil || f.Spec.JSON || f.Spec.Raw != nil {
				continue
			}
			rd := f.Rendered
			q := h.Query{Kind: "tokens", Path: pi, File: f.Name, Order: orderFor(c, uint64(pi)*17+3)}
			r := x.Run(q)
			toks, ok := r.Val.([]lang.SemanticToken)
			if !ok || r.Panic != nil || r.Err != nil {
				continue
			}
			type tk struct {
				typ  string
				s, e int
				mods string
			}
			got := map[string]bool{}
			refTok := map[int]bool{}
			var gotList []string
			for _, t := range toks {
				switch t.Type {
				case lang.TokenAttrName, lang.TokenBlockType, lang.TokenBlockLabel:
					ms := make([]string, len(t.Modifiers))
					for i, m := range t.Modifiers {
						ms[i] = string(m)
					}
					k := fmt.Sprintf("%s@%d-%d[%s]", t.Type, t.Range.Start.Byte, t.Range.End.Byte, strings.Join(ms, ","))
					got[k] = true
					gotList = append(gotList, k)
				case lang.TokenReferenceStep:
					refTok[t.Range.Start.Byte] = true
				}
			}
			var want []string
			skip := []world.Span{}
			// tokens inside attribute values (object keys of type declarations and
			// object literals use the attribute-name type too) are not structural
			for _, n := range rd.Nodes {
				if n != nil && n.Kind == "attr" && n.Value.End > n.Value.Start {
					skip = append(skip, n.Value)
				}
			}
			modsOf := map[*model.Ctx][]string{}
			certain := true
			model.Walk(p.Spec.Schema, f.Spec.Items, func(mc *model.Ctx) {
				// modifiers inherited by this body
				var inherited []string
				if mc.Parent != nil {
					pm, known := modsOf[mc.Parent]
					if !known && mc.Parent.Parent != nil {
						return // below an unknown block
					}
					inherited = pm
				}
				if uncertain(mc) {
					if n := rd.Nodes[mc.NodeID]; n != nil {
						skip = append(skip, n.Range)
					}
					return
				}
				if mc.Item != nil {
					if mc.Block == nil {
						return // unknown block: no tokens inside
					}
					inherited = append(append([]string(nil), inherited...), mc.Block.Mods...)
				}
				modsOf[mc] = inherited
				if mc.Body == nil {
					if mc.Item != nil {
						if n := rd.Nodes[mc.NodeID]; n != nil {
							skip = append(skip, world.Span{Start: n.Body.Start, End: n.Body.End})
						}
					}
					return
				}
				cnt, fe, _, _ := model.HasExt(mc.Body)
				for _, it := range mc.Items {
					switch {
					case it.Attr != nil:
						an := rd.Nodes[it.ID]
						name := it.Attr.Name
						var as *world.AttrSpec
						known := false
						if a := mc.Body.Attr(name); a != nil {
							as, known = a, true
						} else if cnt && name == "count" || fe && name == "for_each" {
							known = true
						} else if mc.Body.Any != nil {
							as, known = mc.Body.Any, true
						}
						if !known {
							continue
						}
						ms := append([]string(nil), inherited...)
						if as != nil {
							ms = append(ms, as.Mods...)
						}
						want = append(want, fmt.Sprintf("%s@%d-%d[%s]", lang.TokenAttrName, an.Name.Start, an.Name.End, strings.Join(ms, ",")))
					case it.Block != nil:
						bn := rd.Nodes[it.ID]
						bs := mc.Body.Block(it.Block.Type)
						if bs == nil {
							continue
						}
						if it.Block.Type == "dynamic" {
							skip = append(skip, bn.Range)
							continue
						}
						bm := append(append([]string(nil), inherited...), bs.Mods...)
						want = append(want, fmt.Sprintf("%s@%d-%d[%s]", lang.TokenBlockType, bn.Name.Start, bn.Name.End, strings.Join(bm, ",")))
						for li, ls := range bn.Labels {
							if li >= len(bs.Labels) {
								continue // surplus label: none
							}
							lm := append(append([]string(nil), bm...), bs.Labels[li].Mods...)
							want = append(want, fmt.Sprintf("%s@%d-%d[%s]", lang.TokenBlockLabel, ls.Start, ls.End, strings.Join(lm, ",")))
						}
					}
				}
			})
			if !certain {
				continue
			}
			inSkip := func(k string) bool {
				var s, e int
				i := strings.IndexByte(k, '@')
				fmt.Sscanf(k[i+1:], "%d-%d", &s, &e)
				for _, sp := range skip {
					if s >= sp.Start && e <= sp.End {
						return true
					}
				}
				return false
			}
			var a, b []string
			for _, k := range gotList {
				if !inSkip(k) {
					a = append(a, k)
				}
			}
			for _, k := range want {
				if !inSkip(k) {
					b = append(b, k)
				}
			}
			sort.Strings(a)
			sort.Strings(b)
			x.Cov.Probe("token_files_compared")
			if d := diffSets(b, a); d != "" {
				d = strings.Replace(strings.Replace(d, "only in native syntax", "expected but missing", 1), "only in JSON", "reported but not expected", 1)
				x.Report("structural-tokens", "tokens", "", fmt.Sprintf("%s: attribute/block/label tokens differ from the schema-known elements (type@bytes[modifiers]): %s", f.Name, d), &q)
				return true
			}
			// reference steps <=> resolution, for plain references in direct values
			model.Walk(p.Spec.Schema, f.Spec.Items, func(mc *model.Ctx) {
				if len(x.Viol) > 0 || mc.Body == nil || uncertain(mc) {
					return
				}
				for anc := mc; anc != nil; anc = anc.Parent {
					if anc.Item != nil && anc.Block == nil {
						return
					}
				}
				for _, it := range mc.Items {
					if it.Attr == nil || it.Attr.Expr == nil || it.Attr.Expr.K != "ref" {
						continue
					}
					as := mc.Body.Attr(it.Attr.Name)
					if as == nil || as.Cons == nil || (as.Cons.K != "any" && as.Cons.K != "ref") || as.Cons.AddrScope != "" {
						continue
					}
					if strings.ContainsAny(it.Attr.Expr.S, "[") {
						continue
					}
					an := rd.Nodes[it.ID]
					gq := h.Query{Kind: "goto_def", Path: pi, File: f.Name, Off: an.Value.Start}
					gr := x.Run(gq)
					ts, ok := gr.Val.(decoder.ReferenceTargets)
					if gr.Panic != nil || (!ok && gr.Err == nil) {
						continue
					}
					resolved := false
					for _, t := range ts {
						if t != nil && t.OriginRange.Start.Byte == an.Value.Start && t.Path.Equals(p.Path) && t.DefRangePtr != nil {
							resolved = true
						}
					}
					x.Cov.Probe("reference_token_checks")
					if resolved && !refTok[an.Value.Start] {
						x.Report("reference-tokens-missing", "tokens", "", fmt.Sprintf("%s: the reference %q at byte %d resolves to a collected declaration (go-to-definition finds it) but has no reference-step tokens", f.Name, it.Attr.Expr.S, an.Value.Start), &q)
						return
					}
				}
			})
			if len(x.Viol) > 0 {
				return true
			}
		}
	}
	return false
}
