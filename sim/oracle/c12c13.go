package oracle

import (
	"fmt"
	"strconv"
	"strings"

	"github.com/hashicorp/hcl-lang/lang"

	h "lssim/harness"
)

// C12: hover describes the element under the cursor and its range contains
// the cursor. At every offset: either nothing/an error, or non-empty content
// and a range of the requested file containing the cursor; on attribute names,
// block types and labels (positions known from the renderer) the content names
// the element and the range is the whole attribute / the type keyword / the label.
type C12 struct{ base }

func init() { registry["C12"] = func() h.Oracle { return &C12{} } }

func (*C12) Property() string { return "C12" }

func (o *C12) Check(x *h.Exec, ev *h.Event) {
	if !x.S.Quiescent() {
		return
	}
	c := ev.Check
	for pi, p := range x.S.Paths {
		if c != nil && c.Offsets != nil && pi != ev.Path {
			continue
		}
		for _, f := range p.Files {
			if c != nil && c.Offsets != nil && ev.File != "" && f.Name != ev.File {
				continue
			}
			if o.objectItems(x, pi, f, c) {
				return
			}
			exp := hoverDescriptions(p, f)
			for _, off := range x.Offsets(f, c, 1) {
				q := h.Query{Kind: "hover", Path: pi, File: f.Name, Off: off, Order: orderFor(c, uint64(off)+3)}
				r := x.Run(q)
				hd, ok := r.Val.(*lang.HoverData)
				if r.Panic != nil || !ok || hd == nil || r.Err != nil {
					continue
				}
				x.Cov.Probe("hover_results")
				if strings.TrimSpace(hd.Content.Value) == "" {
					x.Report("empty-content", "hover", "", fmt.Sprintf("hover at byte %d returned a range %v with empty content", off, hd.Range), &q)
					return
				}
				if hd.Range.Filename != f.Name || hd.Range.Start.Byte > off || hd.Range.End.Byte <= off {
					x.Report("range-excludes-cursor", "hover", "", fmt.Sprintf("hover at byte %d returned range %v (bytes %d..%d) and content %q", off, hd.Range, hd.Range.Start.Byte, hd.Range.End.Byte, short(hd.Content.Value, 80)), &q)
					return
				}
				if f.Rendered == nil || !f.ParseOK {
					continue
				}
				// structure: names, types, labels
				for _, n := range f.Rendered.Nodes {
					if n == nil {
						continue
					}
					switch n.Kind {
					case "attr":
						if n.Name.Contains(off) {
							x.Cov.Probe("hover_on_attr_name")
							if e := exp[n.ID]; e != nil {
								x.Cov.Probe("hover_description_checked")
								if d := wrongDocs(hd.Content.Value, e.allowed, e.want); d != "" {
									x.Report("description", "hover", "attribute", fmt.Sprintf("hover on attribute name %q at byte %d: %s; content %q", n.Item.Attr.Name, off, d, short(hd.Content.Value, 160)), &q)
									return
								}
							}
							if !strings.Contains(hd.Content.Value, n.Item.Attr.Name) {
								x.Report("attr-name-missing", "hover", "", fmt.Sprintf("hover on attribute name %q at byte %d does not name it: %q", n.Item.Attr.Name, off, short(hd.Content.Value, 120)), &q)
								return
							}
							if hd.Range.Start.Byte != n.Range.Start || hd.Range.End.Byte != n.Range.End {
								x.Report("attr-range", "hover", "", fmt.Sprintf("hover on attribute name %q: range bytes %d..%d, whole attribute is %d..%d", n.Item.Attr.Name, hd.Range.Start.Byte, hd.Range.End.Byte, n.Range.Start, n.Range.End), &q)
								return
							}
						}
					case "block":
						if n.Name.Contains(off) {
							x.Cov.Probe("hover_on_block_type")
							if e := exp[n.ID]; e != nil {
								x.Cov.Probe("hover_description_checked")
								if d := wrongDocs(hd.Content.Value, e.allowed, e.want); d != "" {
									x.Report("description", "hover", "block", fmt.Sprintf("hover on block type %q at byte %d: %s; content %q", n.Item.Block.Type, off, d, short(hd.Content.Value, 160)), &q)
									return
								}
							}
							if !strings.Contains(hd.Content.Value, n.Item.Block.Type) {
								x.Report("block-type-missing", "hover", "", fmt.Sprintf("hover on block type %q does not name it: %q", n.Item.Block.Type, short(hd.Content.Value, 120)), &q)
								return
							}
							if hd.Range.Start.Byte != n.Name.Start || hd.Range.End.Byte != n.Name.End {
								x.Report("block-type-range", "hover", "", fmt.Sprintf("hover on block type %q: range bytes %d..%d, keyword is %d..%d", n.Item.Block.Type, hd.Range.Start.Byte, hd.Range.End.Byte, n.Name.Start, n.Name.End), &q)
								return
							}
						}
						for li, ls := range n.Labels {
							if ls.Contains(off) && li < len(n.Item.Block.Labels) {
								x.Cov.Probe("hover_on_label")
								if e := exp[n.ID]; e != nil && li < len(e.labels) {
									x.Cov.Probe("hover_description_checked")
									if d := wrongDocs(hd.Content.Value, e.labels[li], ""); d != "" {
										x.Report("description", "hover", "label", fmt.Sprintf("hover on label %d of block %q at byte %d: %s; content %q", li, n.Item.Block.Type, off, d, short(hd.Content.Value, 160)), &q)
										return
									}
								}
								// (shown as written or escaped the way a quoted label is)
								lb := n.Item.Block.Labels[li]
								esc := strings.Trim(strconv.Quote(lb), "\"")
								if !strings.Contains(hd.Content.Value, lb) && !strings.Contains(hd.Content.Value, esc) {
									x.Report("label-missing", "hover", "", fmt.Sprintf("hover on label %q does not name it: %q", n.Item.Block.Labels[li], short(hd.Content.Value, 120)), &q)
									return
								}
								if hd.Range.Start.Byte != ls.Start || hd.Range.End.Byte != ls.End {
									x.Report("label-range", "hover", "", fmt.Sprintf("hover on label %q: range bytes %d..%d, label is %d..%d", n.Item.Block.Labels[li], hd.Range.Start.Byte, hd.Range.End.Byte, ls.Start, ls.End), &q)
									return
								}
							}
						}
					}
				}
			}
		}
	}
}

// C13: semantic tokens are ordered, disjoint, non-empty and of the advertised
// types - on every state, broken files and stale reference sets included.
type C13 struct{ base }

func init() { registry["C13"] = func() h.Oracle { return &C13{} } }

func (*C13) Property() string { return "C13" }

func (o *C13) Check(x *h.Exec, ev *h.Event) {
	c := ev.Check
	if x.S.Quiescent() {
		if o.exact(x, ev) {
			return
		}
	}
	supported := map[lang.SemanticTokenType]bool{}
	for _, t := range lang.SupportedSemanticTokenTypes {
		supported[t] = true
	}
	for pi, p := range x.S.Paths {
		for fi, f := range p.Files {
			q := h.Query{Kind: "tokens", Path: pi, File: f.Name, Order: orderFor(c, uint64(pi*31+fi)+1)}
			r := x.Run(q)
			toks, ok := r.Val.([]lang.SemanticToken)
			if !ok || r.Panic != nil {
				continue
			}
			if len(toks) > 0 {
				x.Cov.Probe("token_lists")
			}
			// a request cancelled while it runs either fails or is complete: it
			// never returns part of the tokens as if they were all
			if r.Err == nil && len(toks) > 0 {
				for _, k := range []int{1, 2, 5} {
					qc := q
					qc.CancelAfter = k
					rc := x.Run(qc)
					if rc.Panic == nil && rc.Err == nil && rc.Canon() != r.Canon() {
						x.Report("partial-on-cancel", "tokens", "", fmt.Sprintf("%s: cancelled at the %d. poll of its context the request returns no error and other tokens than uncancelled: %s", f.Name, k, firstDiff(r.Canon(), rc.Canon())), &qc)
						return
					}
				}
			}
			for i, t := range toks {
				if !supported[t.Type] {
					x.Report("unadvertised-type", "tokens", string(t.Type), fmt.Sprintf("token %d has type %q", i, t.Type), &q)
					return
				}
				if t.Range.End.Byte <= t.Range.Start.Byte {
					x.Report("empty-token", "tokens", string(t.Type), fmt.Sprintf("token %d %s has range %v (bytes %d..%d)", i, t.Type, t.Range, t.Range.Start.Byte, t.Range.End.Byte), &q)
					return
				}
				if t.Range.Filename != f.Name || t.Range.End.Byte > len(f.Text) {
					x.Report("token-outside-file", "tokens", string(t.Type), fmt.Sprintf("token %d %s has range %v in a file of %d bytes", i, t.Type, t.Range, len(f.Text)), &q)
					return
				}
				if i > 0 {
					pr := toks[i-1]
					if t.Range.Start.Byte < pr.Range.Start.Byte {
						x.Report("unsorted", "tokens", string(pr.Type)+"/"+string(t.Type), fmt.Sprintf("token %d (%s at %d) precedes token %d (%s at %d)", i-1, pr.Type, pr.Range.Start.Byte, i, t.Type, t.Range.Start.Byte), &q)
						return
					}
					// the same in line/column terms, which is what a client encodes
					if t.Range.Start.Line < pr.Range.End.Line || (t.Range.Start.Line == pr.Range.End.Line && t.Range.Start.Column < pr.Range.End.Column) {
						x.Report("overlap-line-column", "tokens", string(pr.Type)+"/"+string(t.Type), fmt.Sprintf("token %d %s ends at %d:%d, token %d %s starts at %d:%d (bytes %d..%d / %d..%d)", i-1, pr.Type, pr.Range.End.Line, pr.Range.End.Column, i, t.Type, t.Range.Start.Line, t.Range.Start.Column, pr.Range.Start.Byte, pr.Range.End.Byte, t.Range.Start.Byte, t.Range.End.Byte), &q)
						return
					}
					if t.Range.Start.Byte < pr.Range.End.Byte {
						x.Report("overlap", "tokens", string(pr.Type)+"/"+string(t.Type), fmt.Sprintf("token %d %s bytes %d..%d overlaps token %d %s bytes %d..%d: %q / %q", i-1, pr.Type, pr.Range.Start.Byte, pr.Range.End.Byte, i, t.Type, t.Range.Start.Byte, t.Range.End.Byte,
							f.Text[pr.Range.Start.Byte:min(pr.Range.End.Byte, len(f.Text))], f.Text[t.Range.Start.Byte:t.Range.End.Byte]), &q)
						return
					}
				}
			}
		}
	}
}
