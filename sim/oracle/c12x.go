package oracle

import (
	"fmt"
	"regexp"
	"strings"

	"github.com/hashicorp/hcl-lang/lang"

	h "lssim/harness"
	"lssim/model"
	"lssim/world"
)

// objectItems: hover inside an object value written for an attribute whose
// (effective) constraint is an object with declared attributes.
//
//   - on the key of an item naming a declared attribute: the content names the
//     attribute, the range runs from the key to the end of the value;
//   - anywhere in an item whose key is computed ((ref), "k-${x}", a.b) or names
//     no declared attribute, the innermost thing the schema can interpret is
//     the object itself: its hover, with the whole object as range.
func (o *C12) objectItems(x *h.Exec, pi int, f *h.FileState, c *h.Check) bool {
	p := x.S.Paths[pi]
	if p.Spec.Schema == nil || f.Rendered == nil || !f.ParseOK || f.Spec == nil || f.Spec.JSON || f.Spec.Raw != nil {
		return false
	}
	rd := f.Rendered
	span := func(e *world.Expr) (world.Span, bool) {
		if e != nil && e.ID > 0 && e.ID < len(rd.Nodes) && rd.Nodes[e.ID] != nil {
			return rd.Nodes[e.ID].Range, true
		}
		return world.Span{}, false
	}
	bad := false
	salt := uint64(0)
	model.Walk(p.Spec.Schema, f.Spec.Items, func(mc *model.Ctx) {
		if bad || mc.Body == nil || uncertain(mc) || mc.Unknown {
			return
		}
		for _, it := range mc.Items {
			if bad || it.Attr == nil || it.Attr.Expr == nil || it.Attr.Expr.K != "obj" {
				continue
			}
			as := mc.Body.Attr(it.Attr.Name)
			if as == nil || as.Cons == nil || as.Cons.K != "object" {
				continue
			}
			e := it.Attr.Expr
			objSpan, ok := span(e)
			if !ok {
				continue
			}
			hover := func(off int) (*lang.HoverData, *h.Query) {
				salt++
				q := h.Query{Kind: "hover", Path: pi, File: f.Name, Off: off, Order: orderFor(c, salt)}
				r := x.Run(q)
				hd, _ := r.Val.(*lang.HoverData)
				if r.Panic != nil || r.Err != nil {
					return nil, &q
				}
				return hd, &q
			}
			for i, a := range e.A {
				k := e.Keys[i]
				ks, ok1 := span(k)
				vs, ok2 := span(a)
				if !ok1 || !ok2 || ks.End <= ks.Start || vs.End <= vs.Start {
					continue
				}
				declared := false
				if k.K == "str" || k.K == "kw" {
					for _, ca := range as.Cons.Attrs {
						if ca.Name == k.S {
							declared = true
						}
					}
				}
				if declared {
					hd, q := hover(ks.Start)
					x.Cov.Probe("hover_on_object_key")
					if hd == nil {
						continue // "nothing known here" is for the first clause of the statement
					}
					if !strings.Contains(hd.Content.Value, k.S) {
						x.Report("object-key", "hover", "name", fmt.Sprintf("hover on the key %q of an object item does not name it: %q", k.S, short(hd.Content.Value, 120)), q)
						bad = true
						return
					}
					continue
				}
				// computed or undeclared key: the object itself is described.
				// (a parenthesised key is an expression of its own where the
				// constraint allows interpolated keys)
				offs := []int{vs.Start, vs.Start + (vs.End-vs.Start)/2}
				if !(k.K == "paren" && as.Cons.AllowInterp) {
					offs = append(offs, ks.Start)
				}
				for _, off := range offs {
					hd, q := hover(off)
					x.Cov.Probe("hover_in_undeclared_object_item")
					if hd == nil {
						x.Report("object-item", "hover", "nothing", fmt.Sprintf("hover at byte %d inside the item %d of the object at bytes %d..%d (key is computed or not declared) reports nothing; the object itself is the innermost element the schema can interpret", off, i, objSpan.Start, objSpan.End), q)
						bad = true
						return
					}
					if hd.Range.Start.Byte != objSpan.Start || hd.Range.End.Byte != objSpan.End {
						x.Report("object-item", "hover", "range", fmt.Sprintf("hover at byte %d inside the item %d of the object at bytes %d..%d (key is computed or not declared) describes bytes %d..%d: %q", off, i, objSpan.Start, objSpan.End, hd.Range.Start.Byte, hd.Range.End.Byte, short(hd.Content.Value, 120)), q)
						bad = true
						return
					}
				}
			}
		}
	})
	return bad
}

// ---------------------------------------------------------------------------
// descriptions: "carries the description the effective schema gives it"

var docRe = regexp.MustCompile(`Doc \d+ \*\*md\*\*`)

type hoverExp struct {
	allowed map[string]bool   // descriptions the element may carry
	want    string            // the one it must carry ("" = none required)
	labels  []map[string]bool // per label: descriptions it may carry
}

// hoverDescriptions maps node ids (attributes, blocks) to the generated
// descriptions ("Doc N **md**", every N unique) their hover may show: the
// attribute's own, the block type's own; a label shows its own or - when it is
// a dependency key - that of a dependent body of its block.
func hoverDescriptions(p *h.PathState, f *h.FileState) map[int]*hoverExp {
	out := map[int]*hoverExp{}
	if p.Spec.Schema == nil || f.Rendered == nil || !f.ParseOK || f.Spec == nil || f.Spec.JSON || f.Spec.Raw != nil {
		return out
	}
	model.Walk(p.Spec.Schema, f.Spec.Items, func(mc *model.Ctx) {
		if mc.Body == nil || uncertain(mc) || mc.Unknown {
			return
		}
		cnt, fe, _, _ := model.HasExt(mc.Body)
		for _, it := range mc.Items {
			switch {
			case it.Attr != nil:
				name := it.Attr.Name
				if (cnt && name == "count") || (fe && name == "for_each") {
					continue
				}
				as := mc.Body.Attr(name)
				if as == nil {
					as = mc.Body.Any
				}
				if as == nil || mc.Body.Block(name) != nil {
					continue
				}
				e := &hoverExp{allowed: map[string]bool{}}
				if docRe.MatchString(as.Desc) {
					e.allowed[as.Desc] = true
					e.want = as.Desc
				}
				out[it.ID] = e
			case it.Block != nil:
				bs := mc.Body.Block(it.Block.Type)
				if bs == nil || it.Block.Type == "dynamic" || mc.Body.Attr(it.Block.Type) != nil {
					continue
				}
				e := &hoverExp{allowed: map[string]bool{}}
				if docRe.MatchString(bs.Desc) {
					e.allowed[bs.Desc] = true
					e.want = bs.Desc
				}
				for _, ls := range bs.Labels {
					m := map[string]bool{}
					if ls.Desc != "" {
						m[ls.Desc] = true
					}
					if ls.DepKey {
						for _, d := range bs.Dep {
							if d.Body != nil && d.Body.Desc != "" {
								m[d.Body.Desc] = true
							}
						}
					}
					e.labels = append(e.labels, m)
				}
				out[it.ID] = e
			}
		}
	})
	return out
}

// wrongDocs: every generated description in the content must be an allowed
// one, and the wanted one must be there.
func wrongDocs(content string, allowed map[string]bool, want string) string {
	for _, d := range docRe.FindAllString(content, -1) {
		if !allowed[d] {
			return fmt.Sprintf("shows the description %q, which the effective schema gives to another element", d)
		}
	}
	if want != "" && !strings.Contains(content, want) {
		return fmt.Sprintf("lacks the description %q the effective schema gives it", want)
	}
	return ""
}
