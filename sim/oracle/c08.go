package oracle

import (
	"fmt"
	"github.com/hashicorp/hcl/v2/hclsyntax"
	"regexp"
	"strings"

	"github.com/hashicorp/hcl-lang/decoder"
	"github.com/hashicorp/hcl-lang/lang"
	"github.com/hashicorp/hcl-lang/reference"
	"github.com/zclconf/go-cty/cty"
	"github.com/zclconf/go-cty/cty/convert"

	h "lssim/harness"
	"lssim/model"
	"lssim/world"
)

// C08: value completion offers only what fits. At cursors inside attribute
// values of generated configurations (indexer caught up):
//   - every reference candidate is the address of a collected declaration,
//     starts with the typed text, uses a block-local address only inside the
//     range it is visible from (self.* only where the body enables it) and is
//     not the attribute being edited; where the cursor is in the attribute's
//     direct value, the declaration (or one nested in it) fits one of the
//     reference-admitting constraints of the attribute;
//   - every function candidate is a known function with the typed prefix;
//   - keyword / boolean candidates are admitted by the attribute's constraint;
//   - accepting a reference candidate whose declaration itself fits yields a
//     reference that go-to-definition resolves to that declaration.
type C08 struct{ base }

func init() { registry["C08"] = func() h.Oracle { return &C08{} } }

func (*C08) Property() string { return "C08" }

type tinfo struct {
	t     reference.Target
	local bool
}

func collectAddrs(ts reference.Targets, out map[string][]tinfo, depth int) {
	if depth > 12 {
		return
	}
	for _, t := range ts {
		if len(t.Addr) > 0 {
			out[t.Addr.String()] = append(out[t.Addr.String()], tinfo{t, false})
		}
		if len(t.LocalAddr) > 0 {
			out[t.LocalAddr.String()] = append(out[t.LocalAddr.String()], tinfo{t, true})
		}
		collectAddrs(t.NestedTargets, out, depth+1)
	}
}

// leaves returns the reference-admitting leaf constraints of a constraint tree.
func refLeaves(c *world.ConsSpec, out *[]*world.ConsSpec) {
	if c == nil {
		return
	}
	switch c.K {
	case "any", "ref":
		*out = append(*out, c)
	}
	refLeaves(c.Elem, out)
	for _, e := range c.Elems {
		refLeaves(e, out)
	}
	for _, a := range c.Attrs {
		refLeaves(a.Cons, out)
	}
}

func consKeywords(c *world.ConsSpec, kws map[string]bool, hasBool *bool) {
	if c == nil {
		return
	}
	switch c.K {
	case "kw":
		kws[c.Kw] = true
	case "any", "littype":
		t := c.Type
		if t == "bool" || t == "any" || t == "" || strings.Contains(t, "bool") || strings.Contains(t, "any") {
			*hasBool = true
		}
	case "litval":
		if c.Val != nil && (c.Val.Expr == "true" || c.Val.Expr == "false") {
			*hasBool = true
		}
	}
	consKeywords(c.Elem, kws, hasBool)
	for _, e := range c.Elems {
		consKeywords(e, kws, hasBool)
	}
	for _, a := range c.Attrs {
		consKeywords(a.Cons, kws, hasBool)
	}
}

func targetFits(t reference.Target, leaves []*world.ConsSpec, depth int) bool {
	for _, c := range leaves {
		typ := world.ParseType(c.Type)
		scope := ""
		if c.K == "ref" {
			scope = c.Scope
		}
		if scope != "" && string(t.ScopeId) != scope {
			continue
		}
		switch {
		case typ == cty.NilType && t.Type == cty.NilType:
			return true
		case typ != cty.NilType && t.Type != cty.NilType:
			if t.Type == cty.DynamicPseudoType {
				return true
			}
			if _, err := convert.Convert(cty.UnknownVal(t.Type), typ); err == nil {
				return true
			}
		}
	}
	if depth < 10 {
		for _, n := range t.NestedTargets {
			if targetFits(n, leaves, depth+1) {
				return true
			}
		}
	}
	return false
}

func (o *C08) Check(x *h.Exec, ev *h.Event) {
	if !x.S.Quiescent() {
		return
	}
	c := ev.Check
	for pi, p := range x.S.Paths {
		if p.Spec.Schema == nil {
			continue
		}
		addrs := map[string][]tinfo{}
		collectAddrs(p.Ctx().ReferenceTargets, addrs, 0)
		funcs := map[string]bool{}
		for _, fs := range p.Spec.Funcs {
			funcs[fs.Name] = true
		}
		for _, f := range p.Files {
			if f.Rendered == nil || !f.ParseOK || f.Spec == nil || f.Spec.JSON || f.Spec.Raw != nil {
				continue
			}
			rd := f.Rendered
			// attribute node -> (ctx, spec)
			type ainfo struct {
				mc *model.Ctx
				as *world.AttrSpec
			}
			attrs := map[int]ainfo{}
			model.Walk(p.Spec.Schema, f.Spec.Items, func(mc *model.Ctx) {
				if mc.Body == nil || uncertain(mc) {
					return
				}
				cnt, fe, _, _ := model.HasExt(mc.Body)
				for _, it := range mc.Items {
					if it.Attr == nil {
						continue
					}
					name := it.Attr.Name
					if (cnt && name == "count") || (fe && name == "for_each") {
						// the extension attributes: no fit claim (any), but what is
						// offered inside them must still be declared, visible and not
						// the attribute itself (count.index inside count)
						attrs[it.ID] = ainfo{mc, &world.AttrSpec{Name: name, Opt: true, Cons: &world.ConsSpec{K: "any", Type: "any"}}}
						continue
					}
					as := mc.Body.Attr(name)
					if as == nil {
						as = mc.Body.Any
					}
					if as != nil {
						attrs[it.ID] = ainfo{mc, as}
					}
				}
			})
			salt := uint64(0)
			for _, n := range rd.Nodes {
				if n == nil || n.Kind != "attr" {
					continue
				}
				ai, ok := attrs[n.ID]
				if !ok {
					continue
				}
				var leaves []*world.ConsSpec
				refLeaves(ai.as.Cons, &leaves)
				kws := map[string]bool{}
				hasBool := false
				consKeywords(ai.as.Cons, kws, &hasBool)
				_, _, _, selfOK := model.HasExt(ai.mc.Body)
				// "direct": the attribute's value is one plain word / traversal, so the
				// constraint at the cursor is the attribute's own (inside operators,
				// conditionals, index keys etc. other types are expected)
				directExpr := n.Item.Attr.Expr != nil && (n.Item.Attr.Expr.K == "ref" || n.Item.Attr.Expr.K == "kw" || n.Item.Attr.Expr.K == "bool")
				firstBracket := n.Value.End
				if directExpr {
					if i := strings.IndexByte(string(f.Text[n.Value.Start:n.Value.End]), '['); i >= 0 {
						firstBracket = n.Value.Start + i
					}
				}
				offs := []int{n.Value.Start, n.Value.End}
				for k := n.Value.Start + 1; k < n.Value.End; k++ {
					if int(mix(uint64(k), 3)%4) == 0 || directExpr {
						offs = append(offs, k)
					}
				}
				// the empty line behind the last argument of a multi-line call of a
				// known function: what is about to be typed there is the next
				// parameter's value
				if e := n.Item.Attr.Expr; e != nil && e.K == "call" && e.Multi && ai.as.Cons.K == "any" && e.ID > 0 && e.ID < len(rd.Nodes) && rd.Nodes[e.ID] != nil && rd.Nodes[e.ID].Slot > 0 {
					var fs *world.FuncSpec
					for _, cand := range p.Spec.Funcs {
						if cand.Name == e.S {
							fs = cand
						}
					}
					ptype := ""
					if fs != nil && model.Convertible(fs.Return, ai.as.Cons.Type) {
						switch {
						case len(e.A) < len(fs.Params):
							ptype = fs.Params[len(e.A)].Type
						case fs.VarParam != nil:
							ptype = fs.VarParam.Type
						}
					}
					slot := rd.Nodes[e.ID].Slot
					if ptype != "" && (c == nil || c.Offsets == nil || hasInt(c.Offsets, slot)) {
						salt++
						q := h.Query{Kind: "completion", Path: pi, File: f.Name, Off: slot, Order: orderFor(c, salt)}
						r := x.Run(q)
						if cands, ok := r.Val.(lang.Candidates); ok && r.Panic == nil && r.Err == nil {
							x.Cov.Probe("argument_slots_completed")
							want := []*world.ConsSpec{{K: "any", Type: ptype}}
							for _, cd := range cands.List {
								if cd.Kind != lang.ReferenceCandidateKind {
									continue
								}
								tis, known := addrs[cd.Label]
								if !known {
									continue // reported by the clause below at other positions
								}
								fits := false
								for _, ti := range tis {
									if targetFits(ti.t, want, 0) {
										fits = true
									}
								}
								x.Cov.Probe("argument_fit_checked")
								if !fits {
									x.Report("argument-does-not-fit", "completion", "", fmt.Sprintf("candidate %q offered at byte %d, the place of argument %d of %s(): neither the declaration nor a nested one converts to the parameter's type %s", cd.Label, slot, len(e.A)+1, e.S, ptype), &q)
									return
								}
							}
						}
					}
				}
				for _, off := range offs {
					if c != nil && c.Offsets != nil && !hasInt(c.Offsets, off) {
						continue
					}
					direct := directExpr && off <= firstBracket
					salt++
					q := h.Query{Kind: "completion", Path: pi, File: f.Name, Off: off, Order: orderFor(c, salt)}
					r := x.Run(q)
					cands, ok := r.Val.(lang.Candidates)
					if !ok || r.Panic != nil || r.Err != nil {
						continue
					}
					for ci, cd := range cands.List {
						s, e := cd.TextEdit.Range.Start.Byte, cd.TextEdit.Range.End.Byte
						if s < 0 || e > len(f.Text) || s > off {
							continue // C06's business
						}
						typed := string(f.Text[s:off])
						switch cd.Kind {
						case lang.ReferenceCandidateKind:
							x.Cov.Probe("reference_candidates")
							tis, known := addrs[cd.Label]
							if !known {
								x.Report("reference-not-declared", "completion", "", fmt.Sprintf("candidate %q at byte %d of %s is not the address of any collected declaration", cd.Label, off, f.Name), &q)
								return
							}
							if !strings.HasPrefix(cd.Label, typed) {
								x.Report("reference-prefix", "completion", "", fmt.Sprintf("candidate %q at byte %d does not start with the typed text %q", cd.Label, off, typed), &q)
								return
							}
							visible, self, notSelfAttr, absolute := false, false, false, false
							for _, ti := range tis {
								if !ti.local {
									visible = true
									absolute = true // (a declaration whose absolute address happens to read self.x / each.x)
								} else if ti.t.TargetableFromRangePtr == nil || (ti.t.TargetableFromRangePtr.Filename == f.Name && ti.t.TargetableFromRangePtr.Start.Byte <= off && off <= ti.t.TargetableFromRangePtr.End.Byte) {
									visible = true
									if strings.HasPrefix(cd.Label, "self") {
										self = true
									}
								}
								if ti.t.RangePtr == nil || ti.t.RangePtr.Filename != f.Name || ti.t.RangePtr.Start.Byte != n.Range.Start || ti.t.RangePtr.End.Byte != n.Range.End {
									notSelfAttr = true
								}
							}
							if !visible {
								x.Report("block-local-outside-block", "completion", rootOf(cd.Label), fmt.Sprintf("candidate %q at byte %d of %s is a block-local name whose block does not contain the cursor", cd.Label, off, f.Name), &q)
								return
							}
							if self && !selfOK && !absolute {
								x.Report("self-not-enabled", "completion", "", fmt.Sprintf("candidate %q at byte %d: the body does not enable self references", cd.Label, off), &q)
								return
							}
							if !notSelfAttr {
								// narrower fingerprint for one recorded family: the attribute's
								// value is a collection and another written element of it fits
								// (the library offers a parent whenever a nested declaration matches)
								shape := ""
								for _, ti := range tis {
									for _, nt := range ti.t.NestedTargets {
										// (an element of a list/tuple value or an item of an object/map value)
										if len(nt.Addr) > 0 && nt.RangePtr != nil && nt.RangePtr.Start.Byte >= n.Value.Start && nt.RangePtr.End.Byte <= n.Value.End {
											shape = "sibling-element"
										}
									}
								}
								x.Report("cyclic-reference", "completion", shape, fmt.Sprintf("candidate %q at byte %d is the attribute being edited itself", cd.Label, off), &q)
								return
							}
							if direct && len(leaves) > 0 && ai.as.Cons.K != "oneof" {
								fits := false
								for _, ti := range tis {
									if targetFits(ti.t, leaves, 0) {
										fits = true
									}
								}
								x.Cov.Probe("reference_fit_checked")
								if !fits {
									x.Report("reference-does-not-fit", "completion", ai.as.Cons.K, fmt.Sprintf("candidate %q at byte %d: neither the declaration nor a nested one satisfies the attribute's constraint %s", cd.Label, off, consDesc(ai.as.Cons)), &q)
									return
								}
								// round trip for declarations that fit themselves
								// (not for dependency-key attributes: changing their value
								// changes the schema in force, the constraint included)
								if ci < 3 && off == n.Value.Start && validTraversal.MatchString(cd.Label) && !isBlockLocalRoot(rootOf(cd.Label)) && !ai.as.DepKey && !keyAttrOfAncestors(ai.mc, n.Item.Attr.Name) && !(n.Item.Attr.Name == "count" || n.Item.Attr.Name == "for_each") {
									for _, ti := range tis {
										if !ti.local && ti.t.RangePtr != nil && targetFits(reference.Target{Type: ti.t.Type, ScopeId: ti.t.ScopeId}, leaves, 99) {
											if o.roundTrip(x, pi, f, cd, ti.t, q) {
												return
											}
											break
										}
									}
								}
							}
						case lang.FunctionCandidateKind:
							x.Cov.Probe("function_candidates")
							if !funcs[cd.Label] {
								x.Report("unknown-function", "completion", "", fmt.Sprintf("candidate %q at byte %d is not a known function", cd.Label, off), &q)
								return
							}
							if !strings.HasPrefix(cd.Label, typed) {
								x.Report("function-prefix", "completion", "", fmt.Sprintf("function candidate %q at byte %d does not start with the typed text %q", cd.Label, off, typed), &q)
								return
							}
						case lang.KeywordCandidateKind:
							x.Cov.Probe("keyword_candidates")
							if direct && !kws[cd.Label] && len(leaves) == 0 && !hasTypeDecl(ai.as.Cons) {
								x.Report("keyword-not-admitted", "completion", "", fmt.Sprintf("keyword candidate %q at byte %d is not admitted by the attribute's constraint %s", cd.Label, off, consDesc(ai.as.Cons)), &q)
								return
							}
						case lang.BoolCandidateKind:
							x.Cov.Probe("bool_candidates")
							if direct && !hasBool && !hasTypeDecl(ai.as.Cons) {
								x.Report("bool-not-admitted", "completion", "", fmt.Sprintf("boolean candidate %q at byte %d: the attribute's constraint %s admits no boolean", cd.Label, off, consDesc(ai.as.Cons)), &q)
								return
							}
						}
					}
				}
			}
		}
	}
}

var validTraversal = regexp.MustCompile(`^[\p{L}_][\p{L}0-9_-]*(\.[\p{L}_][\p{L}0-9_-]*|\[\d+\]|\["[^"\\$%]*"\])*$`)

func isBlockLocalRoot(r string) bool { return r == "self" || r == "count" || r == "each" }

func keyAttrOfAncestors(mc *model.Ctx, name string) bool {
	for c := mc; c != nil; c = c.Parent {
		if c.Eff != nil {
			for _, k := range c.Eff.KeyAttrs {
				if k == name {
					return true
				}
			}
		}
	}
	return false
}

func hasTypeDecl(c *world.ConsSpec) bool {
	if c == nil {
		return false
	}
	if c.K == "typedecl" {
		return true
	}
	if hasTypeDecl(c.Elem) {
		return true
	}
	for _, e := range c.Elems {
		if hasTypeDecl(e) {
			return true
		}
	}
	for _, a := range c.Attrs {
		if hasTypeDecl(a.Cons) {
			return true
		}
	}
	return false
}

func rootOf(a string) string {
	if i := strings.IndexAny(a, ".["); i >= 0 {
		return a[:i]
	}
	return a
}

func consDesc(c *world.ConsSpec) string {
	if c == nil {
		return "nil"
	}
	s := c.K
	if c.Type != "" {
		s += "(" + c.Type + ")"
	}
	if c.Scope != "" {
		s += "@" + c.Scope
	}
	return s
}

func (o *C08) roundTrip(x *h.Exec, pi int, f *h.FileState, cd lang.Candidate, t reference.Target, q h.Query) bool {
	te := cd.TextEdit
	s, e := te.Range.Start.Byte, te.Range.End.Byte
	orig := append([]byte(nil), f.Text...)
	text := append(append(append([]byte(nil), orig[:s]...), te.NewText...), orig[e:]...)
	x.S.SetText(pi, f.Name, text)
	x.S.Quiesce()
	r := x.Run(h.Query{Kind: "goto_def", Path: pi, File: f.Name, Off: s + len(te.NewText)/2})
	x.S.SetText(pi, f.Name, orig)
	x.S.Quiesce()
	x.Cov.Probe("reference_round_trips")
	got, ok := r.Val.(decoder.ReferenceTargets)
	if !ok || r.Panic != nil {
		return false
	}
	delta := len(te.NewText) - (e - s)
	for _, g := range got {
		if g == nil {
			continue
		}
		ws, we := t.RangePtr.Start.Byte, t.RangePtr.End.Byte
		if t.RangePtr.Filename == f.Name {
			if ws >= e {
				ws += delta
			}
			if we >= e {
				we += delta
			}
		}
		if g.Range.Filename == t.RangePtr.Filename && g.Range.Start.Byte == ws && g.Range.End.Byte == we {
			return false
		}
	}
	// narrower fingerprint for one recorded family: a step of the declaration's
	// address is no identifier (a block label such as "na.b"), so no reference
	// text can denote it - the candidate's text reads as other steps
	shape := ""
	for _, st := range t.Addr {
		switch v := st.(type) {
		case lang.AttrStep:
			if !hclsyntax.ValidIdentifier(v.Name) {
				shape = "non-identifier-step"
			}
		case lang.RootStep:
			if !hclsyntax.ValidIdentifier(v.Name) {
				shape = "non-identifier-step"
			}
		}
	}
	x.Report("accepted-reference-unresolved", "goto_def", shape, fmt.Sprintf("accepting reference candidate %q at byte %d produces %q, which go-to-definition does not resolve to its declaration at %v (got %d targets, err %v)", cd.Label, q.Off, te.NewText, *t.RangePtr, len(got), r.Err), &q)
	return true
}
