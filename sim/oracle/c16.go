package oracle

import (
	"fmt"
	"net/url"
	"sort"
	"strings"

	"github.com/hashicorp/hcl-lang/lang"
	"github.com/hashicorp/hcl-lang/schema"

	h "lssim/harness"
	"lssim/model"
	"lssim/world"
	"simrt"
)

// C16: dependent-body selection is canonical, and every feature sees the
// selected body.
//
//	(a) schema keys: for every dependent body of the generated schema and for
//	    extra generated key sets, NewSchemaKey is the same for every permutation
//	    of the listing (under several map-order schedules) and distinct for
//	    distinct key sets;
//	(b) inside every written block whose keys the statement defines, hover,
//	    semantic tokens, reference origins, label hover and document links agree
//	    with the body the selection model picks (completion and validation are
//	    compared with the same model by C07 and C15).
type C16 struct{ base }

func init() { registry["C16"] = func() h.Oracle { return &C16{} } }

func (*C16) Property() string { return "C16" }

func permute(n int, key uint64, k int) []int {
	p := make([]int, n)
	for i := range p {
		p[i] = i
	}
	st := mix(key, uint64(k)+1)
	for i := n - 1; i > 0; i-- {
		st = mix(st, uint64(i))
		j := int(st % uint64(i+1))
		p[i], p[j] = p[j], p[i]
	}
	return p
}

func depCanon(d *world.DepBodySpec) string {
	var parts []string
	for _, l := range d.Labels {
		parts = append(parts, fmt.Sprintf("L%d=%q", l.Index, l.Value))
	}
	for _, a := range d.Attrs {
		v := "addr:" + a.Addr
		if a.Static != nil {
			val := world.ParseVal(a.Static)
			v = "static:" + val.GoString()
		}
		parts = append(parts, "A"+a.Name+"="+v)
	}
	sort.Strings(parts)
	return strings.Join(parts, ";")
}

func (o *C16) keys(x *h.Exec, c *h.Check) bool {
	var key uint64
	if c != nil {
		key = c.Key
	}
	var all []*world.DepBodySpec
	var collect func(b *world.BodySpec)
	collect = func(b *world.BodySpec) {
		if b == nil {
			return
		}
		for _, bl := range b.Blocks {
			collect(bl.Body)
			for _, d := range bl.Dep {
				all = append(all, d)
				collect(d.Body)
			}
		}
	}
	for _, p := range x.Sc.World.Paths {
		collect(p.Schema)
	}
	// extra key sets
	vals := []*world.ValSpec{{Expr: `"a"`}, {Expr: `"b"`}, {Expr: "1"}, {Expr: "2"}, {Expr: "true"}, {Expr: `"1"`}, {Expr: `"true"`}}
	for i := 0; i < 12; i++ {
		d := &world.DepBodySpec{}
		st := mix(key, uint64(i)+77)
		nl, na := int(st%3), int((st>>8)%3)
		for l := 0; l < nl; l++ {
			d.Labels = append(d.Labels, world.LabelDepSpec{Index: l, Value: []string{"x", "y", "x y", ""}[int((st>>(4*uint(l)+16))%4)]})
		}
		for a := 0; a < na; a++ {
			ad := world.AttrDepSpec{Name: []string{"k1", "k2", "k3"}[a]}
			sel := int((st >> (5*uint(a) + 30)) % uint64(len(vals)+2))
			if sel < len(vals) {
				ad.Static = vals[sel]
			} else {
				ad.Addr = []string{"p.one", "p.two"}[sel-len(vals)]
			}
			d.Attrs = append(d.Attrs, ad)
		}
		if nl+na > 0 {
			all = append(all, d)
		}
	}
	// pairs of different key sets that look alike when rendered carelessly:
	// a string literal vs a reference of the same text, "1" vs 1, "true" vs true,
	// a value under another attribute name, a label value vs an attribute value
	for _, pr := range [][2]world.AttrDepSpec{
		{{Name: "k1", Static: &world.ValSpec{Expr: `"p.one"`}}, {Name: "k1", Addr: "p.one"}},
		{{Name: "k1", Static: &world.ValSpec{Expr: `"1"`}}, {Name: "k1", Static: &world.ValSpec{Expr: "1"}}},
		{{Name: "k1", Static: &world.ValSpec{Expr: `"true"`}}, {Name: "k1", Static: &world.ValSpec{Expr: "true"}}},
		{{Name: "k1", Static: &world.ValSpec{Expr: `"a"`}}, {Name: "k2", Static: &world.ValSpec{Expr: `"a"`}}},
	} {
		all = append(all, &world.DepBodySpec{Attrs: []world.AttrDepSpec{pr[0]}}, &world.DepBodySpec{Attrs: []world.AttrDepSpec{pr[1]}})
	}
	all = append(all, &world.DepBodySpec{Labels: []world.LabelDepSpec{{Index: 0, Value: "a"}}}, &world.DepBodySpec{Labels: []world.LabelDepSpec{{Index: 1, Value: "a"}}},
		&world.DepBodySpec{Attrs: []world.AttrDepSpec{{Name: "a", Static: &world.ValSpec{Expr: `"a"`}}}})
	type seen struct {
		canon string
		d     *world.DepBodySpec
	}
	byKey := map[schema.SchemaKey]seen{}
	byCanon := map[string]schema.SchemaKey{}
	pol := []simrt.Policy{simrt.Asc, simrt.Desc, simrt.Shuffle}
	for di, d := range all {
		base := schema.NewSchemaKey(world.DepKeys(d))
		x.Cov.Evaluations++
		canon := depCanon(d)
		// permutations of the listing
		for k := 0; k < 6; k++ {
			pd := &world.DepBodySpec{}
			for _, i := range permute(len(d.Labels), key, k*2+di) {
				pd.Labels = append(pd.Labels, d.Labels[i])
			}
			for _, i := range permute(len(d.Attrs), key, k*2+1+di) {
				pd.Attrs = append(pd.Attrs, d.Attrs[i])
			}
			t := &simrt.Task{Policy: pol[k%len(pol)], Key: mix(key, uint64(k))}
			simrt.SetCurrent(t)
			got := schema.NewSchemaKey(world.DepKeys(pd))
			simrt.SetCurrent(nil)
			x.Cov.Evaluations++
			if got != base {
				x.Report("key-not-canonical", "NewSchemaKey", "", fmt.Sprintf("key set %s: listed as given -> %s, permuted -> %s", canon, base, got), nil)
				return true
			}
		}
		if prev, ok := byKey[base]; ok && prev.canon != canon {
			x.Report("key-collision", "NewSchemaKey", "", fmt.Sprintf("different key sets share schema key %s: %s vs %s", base, prev.canon, canon), nil)
			return true
		}
		byKey[base] = seen{canon, d}
		if prev, ok := byCanon[canon]; ok && prev != base {
			x.Report("key-not-canonical", "NewSchemaKey", "", fmt.Sprintf("equal key sets %s got different keys %s vs %s", canon, prev, base), nil)
			return true
		}
		byCanon[canon] = base
		x.Cov.NonTrivial[h8str("key"+canon)] = true
	}
	x.Cov.Probes["schema_keys_checked"] += int64(len(all))
	return false
}

func h8str(s string) [8]byte { return h8(s) }

func (o *C16) Check(x *h.Exec, ev *h.Event) {
	c := ev.Check
	if o.keys(x, c) {
		return
	}
	if !x.S.Quiescent() {
		return
	}
	salt := uint64(0)
	for pi, p := range x.S.Paths {
		if p.Spec.Schema == nil {
			continue
		}
		for _, f := range p.Files {
			if f.Rendered == nil || !f.ParseOK || f.Spec == nil || f.Spec.JSON || f.Spec.Raw != nil {
				continue
			}
			r := f.Rendered
			// tokens and origins of the file, once
			salt++
			tq := h.Query{Kind: "tokens", Path: pi, File: f.Name, Order: orderFor(c, salt)}
			tr := x.Run(tq)
			toks, _ := tr.Val.([]lang.SemanticToken)
			attrTok := map[int]bool{}
			for _, t := range toks {
				if t.Type == lang.TokenAttrName {
					attrTok[t.Range.Start.Byte] = true
				}
			}
			salt++
			lq := h.Query{Kind: "links", Path: pi, File: f.Name, Order: orderFor(c, salt)}
			lr := x.Run(lq)
			links, linksOK := lr.Val.([]lang.Link)
			var wantLinks []string
			linksCertain := true

			var bad bool
			model.Walk(p.Spec.Schema, f.Spec.Items, func(mc *model.Ctx) {
				if bad || mc.Item == nil || mc.Block == nil {
					return
				}
				n := r.Nodes[mc.NodeID]
				if uncertain(mc) || (mc.Parent != nil && uncertain(mc.Parent)) {
					if mc.Depth == 1 {
						linksCertain = false
					}
					return
				}
				if len(mc.Block.Dep) == 0 {
					// links for blocks without dependency keys: none
					return
				}
				x.Cov.Probe("blocks_with_dependent_bodies")
				x.Cov.Probe("lookup_" + mc.Eff.Lookup)
				// links (top-level blocks only)
				if mc.Depth == 1 && mc.Eff.Dep != nil && mc.Eff.Dep.Body != nil && mc.Eff.Dep.Body.DocsLink != nil && (mc.Eff.Lookup == model.Found) {
					if _, err := url.Parse(mc.Eff.Dep.Body.DocsLink.URL); err == nil {
						for _, li := range mc.Eff.KeyLabels {
							if li < len(n.Labels) {
								wantLinks = append(wantLinks, fmt.Sprintf("%d-%d", n.Labels[li].Start, n.Labels[li].End))
							}
						}
						for _, an := range mc.Eff.KeyAttrs {
							if mc.Eff.FromDefault[an] {
								continue
							}
							for _, it := range mc.Items {
								if it.Attr != nil && it.Attr.Name == an && it.ID < len(r.Nodes) {
									an := r.Nodes[it.ID]
									wantLinks = append(wantLinks, fmt.Sprintf("%d-%d", an.Value.Start, an.Value.End))
								}
							}
						}
					}
				}
				// label hover shows the selected body's detail
				if mc.Eff.Lookup == model.Found && mc.Eff.Dep.Body != nil && mc.Eff.Dep.Body.Detail != "" {
					for li, l := range mc.Block.Labels {
						if !l.DepKey || li >= len(n.Labels) || mc.Item.BareLabels {
							continue
						}
						salt++
						q := h.Query{Kind: "hover", Path: pi, File: f.Name, Off: n.Labels[li].Start + 1, Order: orderFor(c, salt)}
						hr := x.Run(q)
						if hd, ok := hr.Val.(*lang.HoverData); ok && hd != nil && hr.Err == nil {
							x.Cov.Probe("label_hover_checked")
							if !strings.Contains(hd.Content.Value, mc.Eff.Dep.Body.Detail) {
								x.Report("label-hover-detail", "hover", mc.Eff.Lookup, fmt.Sprintf("hover on key label %d of block %s %v does not show the selected body's detail %q: %q", li, mc.Item.Type, mc.Item.Labels, mc.Eff.Dep.Body.Detail, short(hd.Content.Value, 160)), &q)
								bad = true
								return
							}
						}
					}
				}
				if mc.Body == nil {
					return
				}
				// written attributes: hover and tokens must agree with the selected body
				cnt, fe, _, _ := model.HasExt(mc.Body)
				for _, it := range mc.Items {
					if it.Attr == nil || it.ID >= len(r.Nodes) {
						continue
					}
					an := r.Nodes[it.ID]
					name := it.Attr.Name
					as := mc.Body.Attr(name)
					known := as != nil || mc.Body.Any != nil || (cnt && name == "count") || (fe && name == "for_each")
					// hover
					salt++
					q := h.Query{Kind: "hover", Path: pi, File: f.Name, Off: an.Name.Start, Order: orderFor(c, salt)}
					hr := x.Run(q)
					hd, _ := hr.Val.(*lang.HoverData)
					if known && (hr.Err != nil || hd == nil) && hr.Panic == nil {
						x.Report("hover-disagrees", "hover", mc.Eff.Lookup, fmt.Sprintf("attribute %q of block %s %v belongs to the selected body (%s) but hover reports %v", name, mc.Item.Type, mc.Item.Labels, mc.Eff.Lookup, hr.Err), &q)
						bad = true
						return
					}
					if !known && hr.Err == nil && hd != nil {
						x.Report("hover-disagrees", "hover", mc.Eff.Lookup, fmt.Sprintf("attribute %q of block %s %v is not in the selected body (%s) but hover describes it: %q", name, mc.Item.Type, mc.Item.Labels, mc.Eff.Lookup, short(hd.Content.Value, 120)), &q)
						bad = true
						return
					}
					if known && as != nil && as.Desc != "" && hd != nil && !strings.Contains(hd.Content.Value, as.Desc) {
						x.Report("hover-description", "hover", mc.Eff.Lookup, fmt.Sprintf("hover on attribute %q of block %s %v does not carry the effective schema's description %q: %q", name, mc.Item.Type, mc.Item.Labels, as.Desc, short(hd.Content.Value, 160)), &q)
						bad = true
						return
					}
					x.Cov.Probe("attr_feature_agreement_checked")
					// tokens
					if tr.Err == nil && tr.Panic == nil && toks != nil {
						if known != attrTok[an.Name.Start] {
							x.Report("tokens-disagree", "tokens", mc.Eff.Lookup, fmt.Sprintf("attribute %q of block %s %v: known to the selected body = %v, attribute-name token present = %v", name, mc.Item.Type, mc.Item.Labels, known, attrTok[an.Name.Start]), &tq)
							bad = true
							return
						}
					}
				}
			})
			if bad {
				return
			}
			if linksOK && lr.Err == nil && linksCertain {
				var got []string
				for _, l := range links {
					got = append(got, fmt.Sprintf("%d-%d", l.Range.Start.Byte, l.Range.End.Byte))
				}
				sort.Strings(got)
				sort.Strings(wantLinks)
				if strings.Join(got, ",") != strings.Join(wantLinks, ",") {
					x.Report("links", "links", "", fmt.Sprintf("%s: links at %v, expected at %v (labels/attributes that selected a body with a docs link)", f.Name, got, wantLinks), &lq)
					return
				}
				if len(wantLinks) > 0 {
					x.Cov.Probe("files_with_links")
				}
			}
		}
	}
}
