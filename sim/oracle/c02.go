package oracle

import (
	"fmt"
	"reflect"
	"strings"

	"github.com/hashicorp/hcl-lang/decoder"
	"github.com/hashicorp/hcl-lang/lang"
	"github.com/hashicorp/hcl/v2"
	"github.com/hashicorp/hcl/v2/hclsyntax"

	"lssim/deep"
	h "lssim/harness"
	"lssim/world"
)

// C02: every emitted range is a real, self-consistent place in the right
// file. A reflection walk finds every hcl.Range in every result of every
// query at quiescent states; each must name a file of the path it is reported
// for, lie inside that file, and carry the line/column of its byte offsets
// (recomputed independently, grapheme-cluster columns).
type C02 struct{ base }

func init() { registry["C02"] = func() h.Oracle { return &C02{} } }

func (*C02) Property() string { return "C02" }

// schemaRanges collects the ranges the caller put into the schema itself
// (Targets.Range), which are passed through unchanged and exempt.
func schemaRanges(w *world.World) map[string]bool {
	out := map[string]bool{}
	var body func(b *world.BodySpec)
	body = func(b *world.BodySpec) {
		if b == nil {
			return
		}
		if t := b.Targets; t != nil {
			out[fmt.Sprintf("%s|%d|%d", t.File, t.Start[2], t.End[2])] = true
		}
		for _, bl := range b.Blocks {
			body(bl.Body)
			for _, d := range bl.Dep {
				body(d.Body)
			}
		}
	}
	for _, p := range w.Paths {
		body(p.Schema)
		body(p.SchemaV2)
	}
	return out
}

type rangeJudge struct {
	x      *h.Exec
	exempt map[string]bool
}

// check validates r as a range of path pi; returns a clause name or "".
func (j *rangeJudge) check(pi int, r hcl.Range) (clause, detail string) {
	if j.exempt[fmt.Sprintf("%s|%d|%d", r.Filename, r.Start.Byte, r.End.Byte)] {
		return "", ""
	}
	if pi < 0 || pi >= len(j.x.S.Paths) {
		return "unknown-path", fmt.Sprintf("range %v reported for an unknown path", r)
	}
	f := j.x.S.Paths[pi].File(r.Filename)
	if f == nil {
		return "foreign-file", fmt.Sprintf("range %v names %q, which is not a file of path %s", r, r.Filename, j.x.S.Paths[pi].Path.Path)
	}
	n := len(f.Text)
	if r.Start.Byte < 0 || r.End.Byte > n || r.Start.Byte > r.End.Byte {
		clause := "beyond-eof"
		switch {
		case r.End == (hcl.Pos{}) && r.Start.Byte > 0:
			// the parser's recovery leaves the end of an unterminated construct zero
			clause = "zero-end"
		case r.Start.Byte > r.End.Byte:
			clause = "inverted"
		case r.Start.Byte < 0:
			clause = "negative"
		}
		return clause, fmt.Sprintf("range %v (bytes %d..%d) in a file of %d bytes", r, r.Start.Byte, r.End.Byte, n)
	}
	for _, p := range []hcl.Pos{r.Start, r.End} {
		if !h.OnBoundary(f.Text, p.Byte) {
			continue
		}
		want := h.PosAt(f.Text, p.Byte)
		if want.Line != p.Line || want.Column != p.Column {
			if sp, ok := scannerPos(f.Text, r.Filename, p.Byte); ok && sp.Line == p.Line && sp.Column == p.Column {
				// the position is the HCL scanner's own: it counts columns token by
				// token, so a character made of several code points that a broken
				// file splits across two tokens (an emoji and its modifier outside a
				// string) counts twice. hcl-lang copies the parser's range.
				return "line-column-scanner", fmt.Sprintf("range %v: byte %d is line %d column %d, not %d:%d (the scanner's count; a grapheme cluster is split across tokens earlier on the line)", r, p.Byte, want.Line, want.Column, p.Line, p.Column)
			}
			return "line-column", fmt.Sprintf("range %v: byte %d is line %d column %d, not %d:%d", r, p.Byte, want.Line, want.Column, p.Line, p.Column)
		}
	}
	return "", ""
}

func (j *rangeJudge) pathIndex(p lang.Path) int {
	for i, ps := range j.x.S.Paths {
		if ps.Path.Equals(p) {
			return i
		}
	}
	return -1
}

func lastField(path string) string {
	i := strings.LastIndexByte(path, '.')
	f := path[i+1:]
	if k := strings.IndexByte(f, '['); k >= 0 {
		f = f[:k]
	}
	return f
}

func (o *C02) Check(x *h.Exec, ev *h.Event) {
	// ranges of stale sets refer to an older text; reader faults on other paths
	// do not excuse a range
	c := ev.Check
	j := &rangeJudge{x: x, exempt: schemaRanges(x.Sc.World)}
	kinds := kindsOr(c, nil)
	stale := !x.S.SetsCurrent()
	if stale {
		x.Cov.Probe("checked_with_stale_sets")
	}
	want := func(k string) bool {
		if stale {
			// ranges taken from the collected sets describe the older text; what a
			// request derives from the current syntax tree must be valid all the same
			switch k {
			case "completion", "hover", "tokens", "symbols_file", "symbols_ws", "links", "validate", "validate_file":
			default:
				return false
			}
		}
		return len(kinds) == 0 || has(kinds, k)
	}
	salt := uint64(0)
	judge := func(q h.Query) bool {
		salt++
		q.Order = orderFor(c, salt)
		r := x.Run(q)
		if r.Panic != nil || r.Budget || r.Val == nil {
			return false
		}
		report := func(clause, field, detail string) bool {
			if clause == "" {
				return false
			}
			if clause == "line-column-scanner" {
				// one root cause whatever the query: fingerprint by cause
				x.Report(clause, "hcl-scanner", "split-grapheme-cluster", detail, &q)
				return true
			}
			x.Report(clause, q.Kind, field, detail, &q)
			return true
		}
		switch v := r.Val.(type) {
		case decoder.ReferenceTargets:
			for _, t := range v {
				if t == nil {
					continue
				}
				if cl, d := j.check(q.Path, t.OriginRange); report(cl, "OriginRange", d) {
					return true
				}
				tp := j.pathIndex(t.Path)
				if cl, d := j.check(tp, t.Range); report(cl, "Range", d) {
					return true
				}
				if t.DefRangePtr != nil {
					if cl, d := j.check(tp, *t.DefRangePtr); report(cl, "DefRangePtr", d) {
						return true
					}
				}
			}
			return false
		case decoder.ReferenceOrigins:
			for _, o := range v {
				if cl, d := j.check(j.pathIndex(o.Path), o.Range); report(cl, "Range", d) {
					return true
				}
			}
			return false
		case []decoder.Symbol:
			var walk func(ss []decoder.Symbol) bool
			walk = func(ss []decoder.Symbol) bool {
				for _, s := range ss {
					if s == nil || reflect.ValueOf(s).IsNil() {
						continue
					}
					if cl, d := j.check(j.pathIndex(s.Path()), s.Range()); report(cl, "Symbol.Range", d) {
						return true
					}
					if walk(s.NestedSymbols()) {
						return true
					}
				}
				return false
			}
			return walk(v)
		case []lang.CodeLens:
			return false // ranges supplied by the caller's lens functions
		case lang.Candidates:
			// the candidate kind is part of the shape: the ways an edit range is
			// computed differ by kind (attribute names, object keys, functions,
			// hook values ...), and a finding recorded for one must not cover another
			for i, cd := range v.List {
				if cl, d := j.check(q.Path, cd.TextEdit.Range); report(cl, fmt.Sprintf("Range:kind%d", cd.Kind), fmt.Sprintf("%s (candidate %d %q)", d, i, cd.Label)) {
					return true
				}
				for _, te := range cd.AdditionalTextEdits {
					if cl, d := j.check(q.Path, te.Range); report(cl, fmt.Sprintf("AdditionalTextEdits.Range:kind%d", cd.Kind), d) {
						return true
					}
				}
			}
			return false
		}
		bad := false
		deep.Ranges(r.Val, func(path string, rg hcl.Range) {
			if bad {
				return
			}
			fld := lastField(path)
			if fld == "TargetRange" {
				return // direct origin: passed through from the schema
			}
			if cl, d := j.check(q.Path, rg); cl != "" {
				bad = report(cl, fld, d+" (field "+path+")")
			}
		})
		return bad
	}
	sweep(x, ev, want, judge, 5)
}

// sweep runs judge over every path-level, file-level and positional query of
// the current state (shared by the per-result invariant oracles).
func sweep(x *h.Exec, ev *h.Event, want func(string) bool, judge func(h.Query) bool, defStride int) {
	c := ev.Check
	for pi, p := range x.S.Paths {
		if c != nil && c.Offsets != nil && pi != ev.Path {
			continue
		}
		for _, k := range []string{"targets", "origins", "validate", "symbols_ws"} {
			if want(k) && judge(h.Query{Kind: k, Path: pi}) {
				return
			}
		}
		// lookups exactly where something is to be looked up: on every stored
		// origin (go-to-definition) and on every stored declaration's definition
		// (find-references); the sweep below only samples offsets
		if (c == nil || c.Offsets == nil) && x.S.SetsCurrent() {
			n := 0
			for _, org := range p.Ctx().ReferenceOrigins {
				if n >= 80 || !want("goto_def") {
					break
				}
				rng := org.OriginRange()
				if f := p.File(rng.Filename); f == nil || rng.Start.Byte > len(f.Text) {
					continue
				}
				n++
				if judge(h.Query{Kind: "goto_def", Path: pi, File: rng.Filename, Off: rng.Start.Byte}) {
					return
				}
			}
			n = 0
			for _, t := range p.Ctx().ReferenceTargets {
				if n >= 50 || !want("find_refs") {
					break
				}
				if t.DefRangePtr == nil {
					continue
				}
				if f := p.File(t.DefRangePtr.Filename); f == nil || t.DefRangePtr.Start.Byte > len(f.Text) {
					continue
				}
				n++
				if judge(h.Query{Kind: "find_refs", Path: pi, File: t.DefRangePtr.Filename, Off: t.DefRangePtr.Start.Byte}) {
					return
				}
			}
		}
		for _, f := range p.Files {
			if c != nil && c.Offsets != nil && ev.File != "" && f.Name != ev.File {
				continue
			}
			for _, k := range []string{"tokens", "symbols_file", "links", "validate_file"} {
				if want(k) && judge(h.Query{Kind: k, Path: pi, File: f.Name}) {
					return
				}
			}
			for _, off := range x.Offsets(f, c, defStride) {
				for _, k := range []string{"completion", "hover", "goto_def", "find_refs"} {
					if !want(k) {
						continue
					}
					q := h.Query{Kind: k, Path: pi, File: f.Name, Off: off}
					if c != nil {
						q.Limit = c.Limit
						if c.Prefill != nil {
							q.Prefill = *c.Prefill
						} else {
							q.Prefill = mix(c.Key, uint64(off))%2 == 0
						}
					}
					if judge(q) {
						return
					}
				}
			}
		}
	}
}

// scannerPos: the position the HCL scanner assigns to a byte offset that is a
// token boundary.
func scannerPos(text []byte, filename string, off int) (hcl.Pos, bool) {
	toks, _ := hclsyntax.LexConfig(text, filename, hcl.InitialPos)
	for _, t := range toks {
		if t.Range.Start.Byte == off {
			return t.Range.Start, true
		}
		if t.Range.End.Byte == off {
			return t.Range.End, true
		}
	}
	return hcl.Pos{}, false
}
