package oracle

import (
	"fmt"
	"reflect"
	"sort"
	"strings"

	"github.com/hashicorp/hcl-lang/decoder"
	"github.com/hashicorp/hcl/v2"
	"github.com/hashicorp/hcl/v2/hclsyntax"
	"github.com/zclconf/go-cty/cty"

	h "lssim/harness"
	"lssim/model"
	"lssim/world"
)

// C14: document and workspace symbols are a faithful outline; an unreadable
// path hides nothing. The outline model is computed from the hclsyntax tree
// directly; the workspace query is checked under EVERY subset of failing
// paths (both failure shapes: listed-but-unreadable, unlisted) and under
// permutations of Paths().
type C14 struct{ base }

func init() { registry["C14"] = func() h.Oracle { return &C14{} } }

func (*C14) Property() string { return "C14" }

type msym struct {
	name     string
	s, e     int
	children []*msym
	isBlock  bool
}

func modelBody(b *hclsyntax.Body) []*msym {
	var out []*msym
	if b == nil {
		return out
	}
	names := make([]string, 0, len(b.Attributes))
	for k := range b.Attributes { // maporder:ok (sorted by position below)
		names = append(names, k)
	}
	sort.Strings(names)
	for _, k := range names {
		a := b.Attributes[k]
		out = append(out, &msym{name: a.Name, s: a.SrcRange.Start.Byte, e: a.SrcRange.End.Byte, children: modelExpr(a.Expr)})
	}
	for _, bl := range b.Blocks {
		name := bl.Type
		for _, l := range bl.Labels {
			name += fmt.Sprintf(" %q", l)
		}
		r := bl.Range()
		out = append(out, &msym{name: name, s: r.Start.Byte, e: r.End.Byte, children: modelBody(bl.Body), isBlock: true})
	}
	sort.SliceStable(out, func(i, j int) bool { return out[i].s < out[j].s })
	return out
}

func modelExpr(e hclsyntax.Expression) []*msym {
	var out []*msym
	switch x := e.(type) {
	case *hclsyntax.TupleConsExpr:
		for i, it := range x.Exprs {
			r := it.Range()
			out = append(out, &msym{name: fmt.Sprintf("%d", i), s: r.Start.Byte, e: r.End.Byte, children: modelExpr(it)})
		}
	case *hclsyntax.ObjectConsExpr:
		for _, it := range x.Items {
			key, _ := it.KeyExpr.Value(nil)
			if key.IsNull() || !key.IsWhollyKnown() || key.Type() != cty.String {
				continue
			}
			r := hcl.RangeBetween(it.KeyExpr.Range(), it.ValueExpr.Range())
			out = append(out, &msym{name: key.AsString(), s: r.Start.Byte, e: r.End.Byte, children: modelExpr(it.ValueExpr)})
		}
	}
	return out
}

func cmpSyms(got []decoder.Symbol, want []*msym, where string) string {
	if len(got) != len(want) {
		var gn, wn []string
		for _, g := range got {
			gn = append(gn, g.Name())
		}
		for _, w := range want {
			wn = append(wn, w.name)
		}
		return fmt.Sprintf("%s: %d symbols %v, expected %d %v", where, len(got), gn, len(want), wn)
	}
	for i := range got {
		g, w := got[i], want[i]
		r := g.Range()
		if g.Name() != w.name || r.Start.Byte != w.s || r.End.Byte != w.e {
			return fmt.Sprintf("%s[%d]: got %q bytes %d..%d, expected %q bytes %d..%d", where, i, g.Name(), r.Start.Byte, r.End.Byte, w.name, w.s, w.e)
		}
		if d := cmpSyms(g.NestedSymbols(), w.children, where+"/"+w.name); d != "" {
			return d
		}
	}
	return ""
}

func nesting(ss []decoder.Symbol, ps, pe int, where string) string {
	for _, s := range ss {
		if s == nil || reflect.ValueOf(s).IsNil() {
			continue
		}
		r := s.Range()
		if ps >= 0 && (r.Start.Byte < ps || r.End.Byte > pe) {
			return fmt.Sprintf("%s: child %q bytes %d..%d outside its parent %d..%d", where, s.Name(), r.Start.Byte, r.End.Byte, ps, pe)
		}
		if d := nesting(s.NestedSymbols(), r.Start.Byte, r.End.Byte, where+"/"+s.Name()); d != "" {
			return d
		}
	}
	return ""
}

func (o *C14) Check(x *h.Exec, ev *h.Event) {
	c := ev.Check
	salt := uint64(0)
	// document symbols
	perFile := map[string][]*msym{}
	for pi, p := range x.S.Paths {
		for _, f := range p.Files {
			if f.File == nil {
				continue
			}
			body, isNative := f.File.Body.(*hclsyntax.Body)
			if !isNative {
				continue
			}
			want := modelBody(body)
			perFile[fmt.Sprintf("%d/%s", pi, f.Name)] = want
			salt++
			q := h.Query{Kind: "symbols_file", Path: pi, File: f.Name, Order: orderFor(c, salt)}
			r := x.Run(q)
			got, ok := r.Val.([]decoder.Symbol)
			if r.Panic != nil || !ok {
				continue
			}
			if d := cmpSyms(got, want, f.Name); d != "" {
				x.Report("outline-mismatch", "symbols_file", "", d, &q)
				return
			}
			if d := nesting(got, -1, -1, f.Name); d != "" {
				x.Report("child-outside-parent", "symbols_file", "", d, &q)
				return
			}
			if len(got) > 0 {
				x.Cov.Probe("nonempty_outlines")
			}
		}
	}
	// JSON with schema: the same model rendered as HCL JSON (pretty or on one
	// line) must give an outline in source order with the same block/attribute names
	for pi, p := range x.S.Paths {
		if !twinnable(p) || !x.S.Quiescent() {
			continue
		}
		var key uint64
		if c != nil {
			key = c.Key
		}
		twin := jsonTwin(x, p, mix(key, uint64(pi)+5)%2 == 0)
		parsed := true
		for _, tf := range twin.Paths[0].Files {
			if !tf.ParseOK {
				parsed = false
			}
		}
		if !parsed {
			continue
		}
		for _, ord := range []h.Order{{P: "asc"}, {P: "desc"}, {P: "shuffle", Key: mix(key, 77)}} {
			r := twin.Exec(h.Query{Kind: "symbols_ws", Path: 0, Order: ord})
			x.Cov.Evaluations++
			x.Cov.ByKind["symbols_ws"]++
			got, ok := r.Val.([]decoder.Symbol)
			if !ok || r.Panic != nil || r.Err != nil {
				continue
			}
			x.Cov.Probe("json_outlines_checked")
			if d := jsonOrder(got, ""); d != "" {
				x.Report("json-source-order", "symbols_ws", "", fmt.Sprintf("path %s rendered as JSON (map order %s): %s", p.Path.Path, ord.P, d), nil)
				return
			}
			// JSON is decoded through the schema: only items the effective schema
			// knows can appear; blocks whose keys the statement leaves open are skipped
			a, certain := schemaKnownNames(p)
			if !certain {
				continue
			}
			var b []string
			for _, n := range symNames(got) {
				// the content of dynamic blocks is not modelled
				if i := strings.Index(n, "dynamic \""); i >= 0 && strings.Contains(n[i:], "/") {
					continue
				}
				b = append(b, n)
			}
			sort.Strings(a)
			sort.Strings(b)
			if strings.Join(a, ";") != strings.Join(b, ";") {
				x.Report("json-outline", "symbols_ws", "", fmt.Sprintf("path %s: outline of the JSON rendering %v differs from the native outline %v", p.Path.Path, short(fmt.Sprint(b), 500), short(fmt.Sprint(a), 500)), nil)
				return
			}
		}
	}
	// workspace symbols under every failing subset
	np := len(x.S.Paths)
	if np > 4 {
		np = 4
	}
	queries := []string{""}
	if c != nil && len(c.Args) > 0 {
		queries = c.Args
	}
	saved := x.S.Faults
	defer func() { x.S.Faults = saved }()
	enumerated := 0
	sess := x.S.NewSession()
	lastQuery := ""
	for shape := 0; shape < 2; shape++ {
		for mask := 0; mask < 1<<np; mask++ {
			if shape == 1 && mask == 0 {
				continue
			}
			for _, order := range []uint64{0, 7} {
				x.S.Faults = h.Faults{}
				failing := map[int]bool{}
				for i := 0; i < np; i++ {
					if mask&(1<<i) != 0 {
						failing[i] = true
						if shape == 0 {
							x.S.SetFault("reader_error", int64(i), true)
						} else {
							x.S.SetFault("path_unlisted", int64(i), true)
						}
					}
				}
				if order != 0 {
					x.S.SetFault("paths_order", int64(order+uint64(mask)), true)
				}
				enumerated++
				listed := x.S.Reader().Paths(nil)
				// history: a decoder that lives across all configurations must answer
				// like a fresh one. The first request after the faults changed repeats
				// the previous query (the request a client sends again), then the
				// queries follow in an order in which later ones extend earlier ones.
				if lastQuery != "" {
					salt++
					q := h.Query{Kind: "symbols_ws", Path: 0, Arg: lastQuery, Order: orderFor(c, salt)}
					fresh, old := x.Run(q), x.RunIn(sess, q)
					x.Cov.Probe("workspace_query_repeated_after_fault_change")
					if fresh.Panic == nil && old.Panic == nil && fresh.Canon() != old.Canon() {
						x.Report("workspace-history", "symbols_ws", fmt.Sprintf("shape%d", shape), fmt.Sprintf("failing paths %v (shape %d): query %q repeated on a long-lived decoder after the set of readable paths changed differs from the answer of a fresh decoder: %s", keys(failing), shape, lastQuery, firstDiff(fresh.Canon(), old.Canon())), &q)
						return
					}
				}
				for _, qs := range queries {
					salt++
					q := h.Query{Kind: "symbols_ws", Path: 0, Arg: qs, Order: orderFor(c, salt)}
					r := x.Run(q)
					if old := x.RunIn(sess, q); r.Panic == nil && old.Panic == nil && r.Canon() != old.Canon() {
						x.Report("workspace-history", "symbols_ws", fmt.Sprintf("shape%d", shape), fmt.Sprintf("failing paths %v (shape %d): query %q on a long-lived decoder differs from the answer of a fresh decoder: %s", keys(failing), shape, qs, firstDiff(r.Canon(), old.Canon())), &q)
						return
					}
					lastQuery = qs
					got, ok := r.Val.([]decoder.Symbol)
					if r.Panic != nil {
						continue
					}
					if !ok || r.Err != nil {
						x.Report("workspace-error", "symbols_ws", fmt.Sprintf("shape%d", shape), fmt.Sprintf("failing paths %v (shape %d): workspace query %q returned error %v", keys(failing), shape, qs, r.Err), &q)
						return
					}
					// expected: concatenation in Paths() order over readable paths
					type flat struct {
						path, name string
						s, e      int
					}
					var want []flat
					for _, lp := range listed {
						pi := -1
						for i, ps := range x.S.Paths {
							if ps.Path.Equals(lp) {
								pi = i
							}
						}
						if pi < 0 || failing[pi] {
							continue
						}
						p := x.S.Paths[pi]
						jsonInPath := false
						for _, f := range p.Files {
							if strings.HasSuffix(f.Name, ".json") {
								jsonInPath = true
							}
						}
						if jsonInPath {
							want = nil
							goto nextQuery // JSON outline is checked by C19
						}
						for _, f := range p.Files {
							for _, s := range perFile[fmt.Sprintf("%d/%s", pi, f.Name)] {
								if qs == "" || strings.Contains(s.name, qs) {
									want = append(want, flat{lp.Path, s.name, s.s, s.e})
								}
							}
						}
					}
					if len(got) != len(want) {
						x.Report("workspace-set", "symbols_ws", fmt.Sprintf("shape%d", shape), fmt.Sprintf("failing paths %v (shape %d, order key %d), query %q: %d symbols, expected %d (unreadable paths must not hide the others)", keys(failing), shape, order, qs, len(got), len(want)), &q)
						return
					}
					for i := range got {
						g := got[i]
						if g.Path().Path != want[i].path || g.Name() != want[i].name || g.Range().Start.Byte != want[i].s || g.Range().End.Byte != want[i].e {
							x.Report("workspace-element", "symbols_ws", fmt.Sprintf("shape%d", shape), fmt.Sprintf("failing paths %v, query %q: element %d is %s:%q@%d, expected %s:%q@%d", keys(failing), qs, i, g.Path().Path, g.Name(), g.Range().Start.Byte, want[i].path, want[i].name, want[i].s), &q)
							return
						}
					}
					if len(failing) > 0 && len(got) > 0 {
						x.Cov.Probe("symbols_survive_failing_path")
					}
				nextQuery:
				}
			}
		}
	}
	x.Cov.Probes["fault_subsets_enumerated"] += int64(enumerated)
	x.Sample(3, "workspace symbols: %d paths, %d (subset x shape x order) fault configurations enumerated, queries %q", np, enumerated, queries)
}

func keys(m map[int]bool) []int {
	var out []int
	for k := range m { // maporder:ok (sorted below)
		out = append(out, k)
	}
	sort.Ints(out)
	return out
}

// jsonOrder: symbols of one body must be in source order (by start byte; ties
// by end byte are tolerated only for identical ranges).
func jsonOrder(ss []decoder.Symbol, where string) string {
	byFile := map[string]int{}
	for _, s := range ss {
		if s == nil || reflect.ValueOf(s).IsNil() {
			continue
		}
		r := s.Range()
		if last, ok := byFile[r.Filename]; ok && r.Start.Byte < last {
			return fmt.Sprintf("%s: symbol %q at byte %d follows a symbol starting at byte %d (not in source order)", where, s.Name(), r.Start.Byte, last)
		}
		byFile[r.Filename] = r.Start.Byte
		if _, isBlock := s.(*decoder.BlockSymbol); isBlock {
			if d := jsonOrder(s.NestedSymbols(), where+"/"+s.Name()); d != "" {
				return d
			}
		}
	}
	return ""
}

// modelNames / symNames: block and attribute names with their nesting (the
// symbols of expressions are left out: JSON expressions have none).
func modelNames(ms []*msym) []string {
	var out []string
	var rec func(prefix string, ms []*msym, isExpr bool)
	rec = func(prefix string, ms []*msym, isExpr bool) {
		for _, m := range ms {
			out = append(out, prefix+m.name)
			if m.isBlock {
				rec(prefix+m.name+"/", m.children, false)
			}
		}
	}
	rec("", ms, false)
	return out
}

func symNames(ss []decoder.Symbol) []string {
	var out []string
	var rec func(prefix string, ss []decoder.Symbol)
	rec = func(prefix string, ss []decoder.Symbol) {
		for _, s := range ss {
			if s == nil || reflect.ValueOf(s).IsNil() {
				continue
			}
			out = append(out, prefix+s.Name())
			if _, isBlock := s.(*decoder.BlockSymbol); isBlock {
				rec(prefix+s.Name()+"/", s.NestedSymbols())
			}
		}
	}
	rec("", ss)
	return out
}

// schemaKnownNames lists the block/attribute outline of a path restricted to
// items known to the effective schema (what a schema-driven JSON decoding can
// see). certain=false: some block's keys or label count leave the decoding open.
// whyUncertain: reason of the last certain=false (reach probe only).
var whyUncertain string

func schemaKnownNames(p *h.PathState) (names []string, certain bool) {
	certain = true
	blockName := func(bi *world.BlockItem) string {
		n := bi.Type
		for _, l := range bi.Labels {
			n += fmt.Sprintf(" %q", l)
		}
		return n
	}
	var prefixFor func(mc *model.Ctx) (string, bool)
	prefixFor = func(mc *model.Ctx) (string, bool) {
		if mc.Parent == nil {
			return "", true
		}
		if mc.Block == nil || mc.Item.Type == "dynamic" {
			return "", false
		}
		pp, ok := prefixFor(mc.Parent)
		if !ok {
			return "", false
		}
		return pp + blockName(mc.Item) + "/", true
	}
	for _, f := range p.Files {
		model.Walk(p.Spec.Schema, f.Spec.Items, func(mc *model.Ctx) {
			if !certain {
				return
			}
			prefix, ok := prefixFor(mc)
			if !ok {
				return // below a block the schema does not know
			}
			if uncertain(mc) {
				certain = false
				whyUncertain = "keys_open"
				return
			}
			if mc.Eff != nil {
				// a key attribute written as a reference is a template string in
				// JSON: what it selects there is not defined by the statement
				for _, ka := range mc.Eff.KeyAttrs {
					for _, it := range mc.Items {
						if it.Attr != nil && it.Attr.Name == ka && it.Attr.Expr != nil && it.Attr.Expr.K != "str" && it.Attr.Expr.K != "num" && it.Attr.Expr.K != "bool" && it.Attr.Expr.K != "raw" && it.Attr.Expr.K != "ref" {
							certain = false
							whyUncertain = "key_attr_nonliteral_" + it.Attr.Expr.K
							return
						}
					}
				}
			}
			if mc.Block != nil && len(mc.Item.Labels) != len(mc.Block.Labels) {
				certain = false // JSON nests by label: another label count is another structure
			whyUncertain = "label_count"
				return
			}
			if mc.Body == nil {
				return
			}
			for _, it := range mc.Items {
				// an item written as the other kind than the schema declares (a block
				// under an attribute's name or the reverse) reads as the declared
				// kind in JSON
				if (it.Block != nil && (mc.Body.Attr(it.Block.Type) != nil || (mc.Body.Any != nil && mc.Body.Block(it.Block.Type) == nil))) || (it.Attr != nil && mc.Body.Block(it.Attr.Name) != nil) {
					certain = false
					whyUncertain = "kind_mismatch"
					return
				}
				switch {
				case it.Attr != nil:
					cnt, fe, _, _ := model.HasExt(mc.Body)
					if mc.Body.Attr(it.Attr.Name) != nil || mc.Body.Any != nil || (cnt && it.Attr.Name == "count") || (fe && it.Attr.Name == "for_each") {
						names = append(names, prefix+it.Attr.Name)
					}
				case it.Block != nil:
					if bs := mc.Body.Block(it.Block.Type); bs != nil {
						if len(it.Block.Labels) != len(bs.Labels) {
							certain = false
							return
						}
						names = append(names, prefix+blockName(it.Block))
					}
				}
			}
		})
	}
	return names, certain
}
