package oracle

import (
	"fmt"

	h "lssim/harness"
)

// C03: results are a function of the inputs. Each query is executed on a
// fresh decoder under the canonical map order, then again under several other
// map-order schedules, after a sequence of other queries on a long-lived
// decoder, and on a second fresh decoder; all canonical results must be equal
// (element order included; diagnostics as multisets).
type C03 struct{ base }

func (*C03) Property() string { return "C03" }

var c03Path = []string{"targets", "origins", "validate", "writeonly", "symbols_ws"}
var c03File = []string{"tokens", "symbols_file", "links", "validate_file"}
var c03Pos = []string{"completion", "hover", "signature", "goto_def", "find_refs"}

func (o *C03) Check(x *h.Exec, ev *h.Event) {
	c := ev.Check
	kinds := kindsOr(c, nil)
	want := func(k string) bool { return len(kinds) == 0 || has(kinds, k) }
	var key uint64
	if c != nil {
		key = c.Key
	}
	salt := uint64(0)
	others := []h.Order{
		{P: "desc"}, {P: "rotate", Key: 1}, {P: "rotate", Key: mix(key, 11)},
		{P: "shuffle", Key: mix(key, 12)}, {P: "shuffle", Key: mix(key, 13)}, {P: "shuffle", Key: mix(key, 14)},
		{P: "pinfirst", Key: mix(key, 15)}, {P: "pinlast", Key: mix(key, 16)},
	}
	if c != nil && len(c.Orders) > 0 {
		others = c.Orders
	}
	// the history session: a decoder that has already served other queries -
	// the scenario's long-lived one, which has seen every earlier check and
	// lives across the edits in between (a server keeps one decoder and its
	// reader hands out a new path context after every change)
	hist := x.Sess
	if hist == nil {
		hist = x.S.NewSession()
	}
	compare := func(q h.Query) bool {
		q.Order = h.Order{P: "asc"}
		r0 := x.Run(q)
		base := r0.Canon()
		for _, ord := range others {
			q2 := q
			q2.Order = ord
			r := x.Run(q2)
			if r.Canon() != base {
				x.Report("map-order", q.Kind, diffShape(base, r.Canon()),
					fmt.Sprintf("%s under %s/%d differs from asc: %s", q.Kind, ord.P, ord.Key, firstDiff(base, r.Canon())), &q2)
				return true
			}
		}
		// history: run a few other queries on the long-lived session first
		salt++
		for i := 0; i < 3; i++ {
			k := h.QueryKinds[int(mix(key, salt*7+uint64(i))%uint64(len(h.QueryKinds)))]
			if k == "copy_schema" || k == "lenses" {
				continue
			}
			oq := h.Query{Kind: k, Path: q.Path, File: q.File, Off: q.Off, Order: orderFor(c, salt*31+uint64(i))}
			x.RunIn(hist, oq)
		}
		rh := x.RunIn(hist, q)
		if rh.Canon() != base {
			x.Report("history", q.Kind, diffShape(base, rh.Canon()),
				fmt.Sprintf("%s after other queries differs from a fresh decoder: %s", q.Kind, firstDiff(base, rh.Canon())), &q)
			return true
		}
		rf := x.Run(q)
		if rf.Canon() != base {
			x.Report("repeat", q.Kind, diffShape(base, rf.Canon()),
				fmt.Sprintf("%s repeated on a fresh decoder differs: %s", q.Kind, firstDiff(base, rf.Canon())), &q)
			return true
		}
		return false
	}
	for pi, p := range x.S.Paths {
		if c != nil && c.Offsets != nil && pi != ev.Path {
			continue
		}
		for _, k := range c03Path {
			if !want(k) {
				continue
			}
			q := h.Query{Kind: k, Path: pi}
			if k == "symbols_ws" {
				q.Arg = ""
			}
			if compare(q) {
				return
			}
		}
		for _, f := range p.Files {
			if c != nil && c.Offsets != nil && ev.File != "" && f.Name != ev.File {
				continue
			}
			for _, k := range c03File {
				if want(k) && compare(h.Query{Kind: k, Path: pi, File: f.Name}) {
					return
				}
			}
			for _, off := range x.Offsets(f, c, 7) {
				for _, k := range c03Pos {
					if !want(k) {
						continue
					}
					q := h.Query{Kind: k, Path: pi, File: f.Name, Off: off}
					if c != nil {
						q.Limit = c.Limit
						if c.Prefill != nil {
							q.Prefill = *c.Prefill
						}
					}
					if compare(q) {
						return
					}
				}
			}
		}
	}
}
