package oracle

import (
	"fmt"
	"github.com/hashicorp/hcl-lang/lang"
	"github.com/hashicorp/hcl/v2/hclsyntax"
	"strings"

	"github.com/hashicorp/hcl-lang/reference"
	"github.com/zclconf/go-cty/cty"

	h "lssim/harness"
	"lssim/model"
	"lssim/world"
)

// C09: reference targets are exactly the addressable declarations.
//
//	(A) structure of the collected tree: every nested target extends its
//	    parent's address by exactly one step; list indexes are 0..n-1 in source
//	    order; keys are unique; nested ranges lie inside the parent's range;
//	(B) every written block / attribute the effective schema marks addressable
//	    has a target with the address built from the declared steps, its own
//	    extent as range and its header / name as definition range;
//	(C) every collected top-level target belongs to such a declaration (or is
//	    a count/for_each/targetable-as target of a known block): nothing is
//	    collected for items unknown to the schema.
type C09 struct{ base }

func init() { registry["C09"] = func() h.Oracle { return &C09{} } }

func (*C09) Property() string { return "C09" }

func structureProblem(parent *reference.Target, ts reference.Targets, depth int, exempt func(reference.Target) bool) string {
	if depth > 12 {
		return ""
	}
	lastIdx, lastStart := -1, -1
	for i := range ts {
		t := ts[i]
		if parent != nil && exempt != nil && exempt(t) {
			continue
		}
		if parent != nil {
			if len(parent.Addr) > 0 {
				if len(t.Addr) != len(parent.Addr)+1 || !strings.HasPrefix(t.Addr.String(), parent.Addr.String()) {
					return fmt.Sprintf("nested target %s does not extend its parent %s by exactly one step", t.Addr.String(), parent.Addr.String())
				}
			}
			if len(parent.LocalAddr) > 0 && len(t.LocalAddr) > 0 {
				if len(t.LocalAddr) != len(parent.LocalAddr)+1 || !strings.HasPrefix(t.LocalAddr.String(), parent.LocalAddr.String()) {
					return fmt.Sprintf("nested target %s does not extend its parent's local address %s by exactly one step", t.LocalAddr.String(), parent.LocalAddr.String())
				}
			}
			if parent.RangePtr != nil && t.RangePtr != nil && parent.RangePtr.Filename == t.RangePtr.Filename && len(t.Addr) > 0 {
				last := t.Addr[len(t.Addr)-1].String()
				if strings.HasPrefix(last, "[") && t.DefRangePtr == nil { // element of a written collection value (block elements have a header)
					if t.RangePtr.Start.Byte < parent.RangePtr.Start.Byte || t.RangePtr.End.Byte > parent.RangePtr.End.Byte {
						return fmt.Sprintf("element %s (bytes %d..%d) lies outside its value %s (bytes %d..%d)", t.Addr.String(), t.RangePtr.Start.Byte, t.RangePtr.End.Byte, parent.Addr.String(), parent.RangePtr.Start.Byte, parent.RangePtr.End.Byte)
					}
				}
			}
			if len(t.Addr) > 0 {
				last := t.Addr[len(t.Addr)-1].String()
				var n int
				if _, err := fmt.Sscanf(last, "[%d]", &n); err == nil && !strings.Contains(last, "\"") && t.RangePtr != nil {
					// list index = source order
					// (an element the constraint declares but the value does not write
					// is reported with an empty range at the start of the value: it has
					// no place in the source to be ordered by)
					if n == lastIdx+1 && t.RangePtr.Start.Byte != t.RangePtr.End.Byte {
						if t.RangePtr.Start.Byte < lastStart {
							return fmt.Sprintf("index %s of %s is not in source order", last, parent.Addr.String())
						}
						lastIdx, lastStart = n, t.RangePtr.Start.Byte
					}
				}
			}
		}
		if p := structureProblem(&t, t.NestedTargets, depth+1, exempt); p != "" {
			return p
		}
	}
	return ""
}

func typeName(t cty.Type) string {
	if t == cty.NilType {
		return "nil"
	}
	return t.FriendlyName()
}

// blockAddr resolves a block's address from its declared steps.
func blockAddr(bs *world.BlockSpec, bi *world.BlockItem) (string, bool) {
	if bs.Addr == nil || len(bs.Addr.Steps) == 0 {
		return "", false
	}
	var parts []string
	for _, s := range bs.Addr.Steps {
		switch s.K {
		case "static":
			parts = append(parts, s.Name)
		case "label":
			if int(s.Index) >= len(bi.Labels) {
				return "", false
			}
			parts = append(parts, bi.Labels[s.Index])
		case "attrvalue":
			var found *world.AttrItem
			for _, it := range bi.Body {
				if it.Attr != nil && it.Attr.Name == s.Name {
					found = it.Attr
				}
			}
			if found == nil {
				if s.Optional {
					continue
				}
				return "", false
			}
			if found.Expr == nil || found.Expr.K != "str" {
				return "?", false // value form not defined by the statement
			}
			parts = append(parts, found.Expr.S)
		default:
			return "", false
		}
	}
	// lang.Address prints root + .attr steps
	return strings.Join(parts, "."), true
}

func (o *C09) Check(x *h.Exec, ev *h.Event) {
	c := ev.Check
	for pi, p := range x.S.Paths {
		if p.Spec.Schema == nil {
			continue
		}
		usable := true
		for _, f := range p.Files {
			if f.Rendered == nil || !f.ParseOK || f.Spec == nil || f.Spec.JSON || f.Spec.Raw != nil {
				usable = false
			}
		}
		if !usable {
			continue
		}
		for _, ord := range []h.Order{{P: "asc"}, orderFor(c, uint64(pi)+1)} {
			q := h.Query{Kind: "targets", Path: pi, Order: ord}
			r := x.Run(q)
			got, ok := r.Val.(reference.Targets)
			if !ok || r.Panic != nil || r.Err != nil {
				continue
			}
			x.Cov.Probe("target_collections_checked")
			// traversals written under a reference constraint with an address are
			// declarations of their own; where they are attached is left open
			addrRef := map[string]bool{}
			// (by attribute name wherever the schema declares such a constraint:
			// the content of dynamic blocks is not walked by the model, and static
			// and dependent bodies may declare one name differently)
			addrRefNames := map[string]bool{}
			collectAddrRefNames(p.Spec.Schema, addrRefNames, 0)
			for _, f := range p.Files {
				rd := f.Rendered
				world.WalkItems(f.Spec.Items, func(it *world.Item, d int) {
					if it.Attr == nil || !addrRefNames[it.Attr.Name] {
						return
					}
					it.Attr.Expr.Walk(func(e *world.Expr) {
						if e.ID > 0 && e.ID < len(rd.Nodes) && rd.Nodes[e.ID] != nil {
							sp := rd.Nodes[e.ID].Range
							addrRef[fmt.Sprintf("%s|%d-%d", f.Name, sp.Start, sp.End)] = true
						}
					})
				})
			}
			for _, f := range p.Files {
				rd := f.Rendered
				model.Walk(p.Spec.Schema, f.Spec.Items, func(mc *model.Ctx) {
					if mc.Body == nil {
						return
					}
					for _, it := range mc.Items {
						if it.Attr == nil {
							continue
						}
						as := mc.Body.Attr(it.Attr.Name)
						if as == nil {
							as = mc.Body.Any
						}
						// inferred bodies are read with the static body even where a
						// dependent body overrides the attribute: either declaration counts
						var static *world.AttrSpec
						if mc.Block != nil && mc.Block.Body != nil {
							static = mc.Block.Body.Attr(it.Attr.Name)
						}
						if (as != nil && consHasAddrRef(as.Cons)) || (static != nil && consHasAddrRef(static.Cons)) {
							it.Attr.Expr.Walk(func(e *world.Expr) {
								if e.ID > 0 && e.ID < len(rd.Nodes) && rd.Nodes[e.ID] != nil {
									sp := rd.Nodes[e.ID].Range
									addrRef[fmt.Sprintf("%s|%d-%d", f.Name, sp.Start, sp.End)] = true
								}
							})
						}
					}
				})
			}
			exempt := func(t reference.Target) bool {
				return t.RangePtr != nil && addrRef[fmt.Sprintf("%s|%d-%d", t.RangePtr.Filename, t.RangePtr.Start.Byte, t.RangePtr.End.Byte)]
			}
			if pr := structureProblem(nil, got, 0, exempt); pr != "" {
				x.Report("nesting", "targets", "", pr, &q)
				return
			}
			// the step of an element of a written value denotes its written key: an
			// attribute step is a name one can write behind a dot; any other key
			// is an index step
			valueSpans := map[string][]world.Span{}
			for _, f := range p.Files {
				if f.Rendered == nil {
					continue
				}
				for _, n := range f.Rendered.Nodes {
					if n != nil && n.Kind == "attr" {
						valueSpans[f.Name] = append(valueSpans[f.Name], n.Value)
					}
				}
			}
			var elemProblem func(ts reference.Targets, depth int) string
			elemProblem = func(ts reference.Targets, depth int) string {
				for _, t := range ts {
					if depth > 0 && t.RangePtr != nil && len(t.Addr) > 0 && !exempt(t) {
						if as, ok := t.Addr[len(t.Addr)-1].(lang.AttrStep); ok && !hclsyntax.ValidIdentifier(as.Name) {
							for _, vs := range valueSpans[t.RangePtr.Filename] {
								if vs.Start <= t.RangePtr.Start.Byte && t.RangePtr.End.Byte <= vs.End && t.RangePtr.End.Byte-t.RangePtr.Start.Byte < vs.End-vs.Start {
									return fmt.Sprintf("element target %s (bytes %d..%d, inside a written value) ends in the attribute step %q, which is not a name: no reference can denote it", t.Addr.String(), t.RangePtr.Start.Byte, t.RangePtr.End.Byte, as.Name)
								}
							}
						}
					}
					if depth < 12 {
						if pr := elemProblem(t.NestedTargets, depth+1); pr != "" {
							return pr
						}
					}
				}
				return ""
			}
			if pr := elemProblem(got, 0); pr != "" {
				x.Report("element-key", "targets", "", pr, &q)
				return
			}
			// one declaration, one type: two nested targets of the same parent with
			// the same address and the same extent must not carry different types
			var dupProblem func(ts reference.Targets, depth int) string
			dupProblem = func(ts reference.Targets, depth int) string {
				for _, t := range ts {
					seen := map[string]string{}
					for _, n := range t.NestedTargets {
						// (something not written has an empty extent at the start of the
						// body: an attribute and a block type that share a name may meet there)
						if n.RangePtr == nil || n.Type == cty.NilType || exempt(n) || n.RangePtr.Start.Byte == n.RangePtr.End.Byte {
							continue
						}
						k := fmt.Sprintf("%s|%s|%d-%d", n.Addr.String(), n.RangePtr.Filename, n.RangePtr.Start.Byte, n.RangePtr.End.Byte)
						ty := n.Type.GoString()
						if prev, ok := seen[k]; ok && prev != ty {
							return fmt.Sprintf("two nested targets %s with the same extent (bytes %d..%d) under %s carry different types: %s and %s", n.Addr.String(), n.RangePtr.Start.Byte, n.RangePtr.End.Byte, t.Addr.String(), prev, ty)
						}
						seen[k] = ty
					}
					if depth < 12 {
						if pr := dupProblem(t.NestedTargets, depth+1); pr != "" {
							return pr
						}
					}
				}
				return ""
			}
			if pr := dupProblem(got, 0); pr != "" {
				x.Report("contradictory-nested", "targets", "", pr, &q)
				return
			}
			// a target with a block header as definition range stands for that
			// block: its range is the block's own extent (also the elements of
			// list/set/map-typed nested blocks of an inferred body)
			blockAt := map[string]world.Span{}
			for _, f := range p.Files {
				if f.Rendered == nil || !f.ParseOK {
					continue
				}
				for _, n := range f.Rendered.Nodes {
					if n != nil && n.Kind == "block" {
						blockAt[fmt.Sprintf("%s|%d", f.Name, n.Range.Start)] = n.Range
					}
				}
			}
			var extentProblem func(ts reference.Targets, depth int) string
			extentProblem = func(ts reference.Targets, depth int) string {
				for _, t := range ts {
					if t.DefRangePtr != nil && t.RangePtr != nil && t.RangePtr.Start.Byte == t.DefRangePtr.Start.Byte {
						if sp, ok := blockAt[fmt.Sprintf("%s|%d", t.RangePtr.Filename, t.RangePtr.Start.Byte)]; ok && len(t.Addr) > 0 {
							if _, isElem := t.Addr[len(t.Addr)-1].(lang.IndexStep); isElem && t.RangePtr.End.Byte != sp.End {
								return fmt.Sprintf("element target %s stands for the block at bytes %d..%d but its range is bytes %d..%d", t.Addr.String(), sp.Start, sp.End, t.RangePtr.Start.Byte, t.RangePtr.End.Byte)
							}
						}
					}
					if depth < 12 {
						if pr := extentProblem(t.NestedTargets, depth+1); pr != "" {
							return pr
						}
					}
				}
				return ""
			}
			if pr := extentProblem(got, 0); pr != "" {
				x.Report("element-extent", "targets", "", pr, &q)
				return
			}
			// index top-level targets by (file, range)
			type key struct {
				file string
				s, e int
			}
			byRange := map[key][]reference.Target{}
			for _, t := range got {
				if t.RangePtr == nil {
					continue
				}
				k := key{t.RangePtr.Filename, t.RangePtr.Start.Byte, t.RangePtr.End.Byte}
				byRange[k] = append(byRange[k], t)
			}
			allowed := map[key]bool{}
			uncertainFile := map[string]bool{}
			for _, f := range p.Files {
				rd := f.Rendered
				bad := false
				model.Walk(p.Spec.Schema, f.Spec.Items, func(mc *model.Ctx) {
					if bad {
						return
					}
					if uncertain(mc) {
						uncertainFile[f.Name] = true
						return
					}
					// this body's own block (addressable?)
					if mc.Item != nil && mc.Block != nil {
						n := rd.Nodes[mc.NodeID]
						k := key{f.Name, n.Range.Start, n.Range.End}
						if mc.Block.Addr != nil && len(mc.Block.Addr.Steps) == 0 {
							allowed[k] = true // an address without steps: not defined by the statement
						}
						if mc.Block.Addr != nil {
							addr, ok := blockAddr(mc.Block, mc.Item)
							if addr == "?" || (ok && !validAddr(addr)) {
								allowed[k] = true // value form / empty step: not defined by the statement
							}
							if ok && validAddr(addr) {
								allowed[k] = true
								a := mc.Block.Addr
								expectsAny := a.AsRef || a.AsTypeOf != "" || a.BodyAsData || a.UnknownNested || (a.DepBodyAsData && mc.Eff != nil && mc.Eff.Lookup == model.Found)
								if expectsAny {
									x.Cov.Probe("addressable_blocks")
									found := false
									for _, t := range byRange[k] {
										if t.Addr.String() == addr {
											found = true
											lastHdr := n.Name.End
											if len(n.Labels) > 0 {
												lastHdr = n.Labels[len(n.Labels)-1].End
											}
											if t.DefRangePtr == nil || t.DefRangePtr.Start.Byte != n.Name.Start || t.DefRangePtr.End.Byte != lastHdr {
												x.Report("block-def-range", "targets", "", fmt.Sprintf("%s: target %s of block %s %v: definition range %v, header is bytes %d..%d", f.Name, addr, mc.Item.Type, mc.Item.Labels, t.DefRangePtr, n.Name.Start, lastHdr), &q)
												bad = true
												return
											}
										}
									}
									if !found {
										x.Report("block-target-missing", "targets", "", fmt.Sprintf("%s: block %s %v is addressable as %s (range bytes %d..%d) but no target with that address and range was collected (map order %s)", f.Name, mc.Item.Type, mc.Item.Labels, addr, n.Range.Start, n.Range.End, ord.P), &q)
										bad = true
										return
									}
								}
							}
						}
						if mc.Body != nil && len(mc.Body.TargetableAs) > 0 {
							allowed[k] = true
						}
					}
					if mc.Body == nil {
						return
					}
					cnt, fe, _, _ := model.HasExt(mc.Body)
					for _, it := range mc.Items {
						if it.Attr == nil || it.ID >= len(rd.Nodes) {
							continue
						}
						an := rd.Nodes[it.ID]
						k := key{f.Name, an.Range.Start, an.Range.End}
						name := it.Attr.Name
						if (cnt && name == "count") || (fe && name == "for_each") {
							allowed[k] = true
							continue
						}
						as := mc.Body.Attr(name)
						if as == nil {
							as = mc.Body.Any
						}
						if as != nil && consHasAddrRef(as.Cons) {
							// a reference constraint with an address makes the written
							// traversal itself a declaration
							it.Attr.Expr.Walk(func(e *world.Expr) {
								if e.ID > 0 && e.ID < len(rd.Nodes) && rd.Nodes[e.ID] != nil {
									sp := rd.Nodes[e.ID].Range
									allowed[key{f.Name, sp.Start, sp.End}] = true
								}
							})
						}
						if as == nil || as.Addr == nil {
							continue
						}
						var parts []string
						okAddr := len(as.Addr.Steps) > 0
						for _, s := range as.Addr.Steps {
							switch s.K {
							case "static":
								parts = append(parts, s.Name)
							case "attrname":
								parts = append(parts, name)
							default:
								okAddr = false
							}
						}
						if !okAddr {
							continue
						}
						addr := strings.Join(parts, ".")
						allowed[k] = true
						// keyword, literal-value and type-declaration values carry no
						// value a target could describe: left open
						open := as.Cons == nil || as.Cons.K == "kw" || as.Cons.K == "litval" || as.Cons.K == "typedecl"
						if as.Addr.AsRef && !open {
							x.Cov.Probe("addressable_attributes")
							found := false
							for _, t := range byRange[k] {
								if t.Addr.String() == addr && t.Type == cty.NilType {
									found = true
									if t.DefRangePtr == nil || t.DefRangePtr.Start.Byte != an.Name.Start || t.DefRangePtr.End.Byte != an.Name.End {
										x.Report("attr-def-range", "targets", "", fmt.Sprintf("%s: target %s: definition range %v, attribute name is bytes %d..%d", f.Name, addr, t.DefRangePtr, an.Name.Start, an.Name.End), &q)
										bad = true
										return
									}
								}
							}
							if !found {
								x.Report("attr-target-missing", "targets", "", fmt.Sprintf("%s: attribute %q is addressable as reference %s (bytes %d..%d) but no such target was collected (map order %s)", f.Name, name, addr, an.Range.Start, an.Range.End, ord.P), &q)
								bad = true
								return
							}
						}
					}
				})
				if bad {
					return
				}
			}
			// (C) nothing else at top level
			for _, t := range got {
				if t.RangePtr == nil {
					continue
				}
				if uncertainFile[t.RangePtr.Filename] {
					continue
				}
				k := key{t.RangePtr.Filename, t.RangePtr.Start.Byte, t.RangePtr.End.Byte}
				if !allowed[k] {
					x.Report("target-for-unknown-item", "targets", "", fmt.Sprintf("target %s/%s at %s bytes %d..%d (%q) does not belong to a declaration the schema marks addressable", t.Addr.String(), t.LocalAddr.String(), k.file, k.s, k.e, short(textAt(p.File(k.file), k.s, k.e), 60)), &q)
					return
				}
			}
			x.Sample(3, "path %s: %d top-level targets, %d addressable declarations matched", p.Path.Path, len(got), len(allowed))
		}
	}
}

func collectAddrRefNames(b *world.BodySpec, out map[string]bool, depth int) {
	if b == nil || depth > 12 {
		return
	}
	for _, a := range b.Attrs {
		if consHasAddrRef(a.Cons) {
			out[a.Name] = true
		}
	}
	for _, bl := range b.Blocks {
		collectAddrRefNames(bl.Body, out, depth+1)
		for _, d := range bl.Dep {
			collectAddrRefNames(d.Body, out, depth+1)
		}
	}
}

func consHasAddrRef(c *world.ConsSpec) bool {
	if c == nil {
		return false
	}
	if c.K == "ref" && c.AddrScope != "" {
		return true
	}
	if consHasAddrRef(c.Elem) {
		return true
	}
	for _, e := range c.Elems {
		if consHasAddrRef(e) {
			return true
		}
	}
	for _, a := range c.Attrs {
		if consHasAddrRef(a.Cons) {
			return true
		}
	}
	return false
}

func validAddr(a string) bool {
	for _, part := range strings.Split(a, ".") {
		if part == "" {
			return false
		}
	}
	return a != ""
}
