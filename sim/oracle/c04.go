package oracle

import (
	"fmt"

	h "lssim/harness"
)

// C04: queries never modify what the caller supplied. A deep structural
// snapshot (reflection, unexported fields, pointer-aliasing shape, func values
// by symbol) of every PathContext, the DecoderContext and all package-level
// variables of the library is taken before and after every query of a long
// history of queries (including error-returning ones under reader and hook
// faults, the limit knob and prefill); any difference is a violation.
type C04 struct{ base }

func init() {
	registry["C04"] = func() h.Oracle {
		h.KeepInitialInputs = true
		return &C04{}
	}
}

func (*C04) Property() string { return "C04" }

var c04Path = []string{"validate", "targets", "origins", "writeonly", "symbols_ws"}
var c04File = []string{"tokens", "symbols_file", "links", "validate_file", "lenses"}
var c04Pos = []string{"completion", "hover", "signature", "goto_def", "find_refs"}

func (o *C04) Check(x *h.Exec, ev *h.Event) {
	c := ev.Check
	kinds := kindsOr(c, nil)
	want := func(k string) bool { return len(kinds) == 0 || has(kinds, k) }
	// the light snapshot (everything but the parsed syntax trees, which are
	// covered by the full snapshot at the end of the check) is compared after
	// every query
	// what the indexer's own calls (collecting targets and origins, which ran
	// before this check) did to the caller's schema, decoder context and the
	// library's package-level variables
	if x.S.InitialInputs != "" {
		if now := x.S.SnapshotInputs(); now != x.S.InitialInputs {
			field, ctx := h.SnapDiff(x.S.InitialInputs, now)
			x.Report("mutation", "indexer", field, fmt.Sprintf("collecting reference targets/origins (or an earlier request) changed what the caller supplied, at field %s\n%s", field, ctx), nil)
			return
		}
	}
	before := x.S.SnapshotLight()
	fullBefore := x.S.Snapshot()
	defer func() {
		if len(x.Viol) > 0 {
			return
		}
		if after := x.S.Snapshot(); after != fullBefore {
			field, ctx := h.SnapDiff(fullBefore, after)
			x.Report("mutation", "query", field, fmt.Sprintf("the sequence of queries of this check changed shared state (syntax tree) at field %s\n%s", field, ctx), nil)
		}
	}()
	sess := x.S.NewSession() // one decoder for the whole history
	salt := uint64(0)
	window := uint64(16)
	if c != nil && c.Offsets != nil {
		window = 1
	}
	run := func(q h.Query) bool {
		salt++
		q.Order = orderFor(c, salt)
		var r *h.Result
		if salt%3 == 0 {
			r = x.Run(q)
		} else {
			r = x.RunIn(sess, q)
		}
		// Snapshots are compared after every query when the check names its
		// offsets explicitly (replay, minimisation) and after every 16th
		// otherwise; a difference is then attributed to the window.
		if window > 1 && salt%window != 0 {
			return false
		}
		after := x.S.SnapshotLight()
		if after != before {
			field, ctx := h.SnapDiff(before, after)
			kind := "ok"
			if r.Err != nil {
				kind = "error-returning"
			}
			if r.Panic != nil {
				kind = "panicking"
			}
			site := "query" // the same in both modes, so that minimisation may narrow the window
			x.Report("mutation", site, field, fmt.Sprintf("%s (%s query, or one of the %d before it) changed shared state at field %s\n%s", q.Kind, kind, window-1, field, ctx), &q)
			return true
		}
		if r.Err != nil {
			x.Cov.Probe("error_returning_query_checked")
		}
		return false
	}
	for pi, p := range x.S.Paths {
		if c != nil && c.Offsets != nil && pi != ev.Path {
			continue
		}
		for _, k := range c04Path {
			if want(k) && run(h.Query{Kind: k, Path: pi}) {
				return
			}
		}
		for _, f := range p.Files {
			if c != nil && c.Offsets != nil && ev.File != "" && f.Name != ev.File {
				continue
			}
			for _, k := range c04File {
				if want(k) && run(h.Query{Kind: k, Path: pi, File: f.Name}) {
					return
				}
			}
			for _, off := range x.Offsets(f, c, 9) {
				for _, k := range c04Pos {
					if !want(k) {
						continue
					}
					q := h.Query{Kind: k, Path: pi, File: f.Name, Off: off}
					if c != nil {
						q.Limit = c.Limit
						if c.Prefill != nil {
							q.Prefill = *c.Prefill
						} else {
							q.Prefill = mix(c.Key, salt)%2 == 0
						}
					}
					if run(q) {
						return
					}
				}
			}
		}
	}
}

// Round: concurrent rounds in the plain build - the scheduler compares the
// light snapshot of the shared roots at every context switch, which catches
// mutate-then-restore and transient states no before/after comparison sees.
func (o *C04) Round(x *h.Exec, ev *h.Event) {
	if ev.Round == nil {
		return
	}
	rr := x.S.RunRound(ev.Round, true)
	x.Cov.Switches += int64(rr.Switches)
	x.Cov.Interleave[hashInts(rr.Decisions)] = true
	for _, qs := range ev.Round.Tasks {
		x.Cov.Evaluations += int64(len(qs))
	}
	for _, d := range rr.SnapDiffs {
		f := d
		if i := indexByte(d, '\n'); i >= 0 {
			f = d[:i]
		}
		x.Report("mutation", "query", f, "shared state differs at a context switch of a concurrent round (transient or lasting write by a running query):\n"+d, nil)
		return
	}
}

func indexByte(s string, b byte) int {
	for i := 0; i < len(s); i++ {
		if s[i] == b {
			return i
		}
	}
	return -1
}
