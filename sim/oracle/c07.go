package oracle

import (
	"fmt"
	"regexp"
	"sort"
	"strings"

	"github.com/hashicorp/hcl-lang/lang"
	"github.com/hashicorp/hcl/v2"

	h "lssim/harness"
	"lssim/model"
	"lssim/world"
)

// C07: body and label completion offers exactly what the effective schema
// still allows. On generated configurations (cleanly parsed, indexer caught
// up) the candidate labels at cursors in body white space, inside attribute
// names / block types (typed prefix) and inside completable labels are
// compared with the effective-schema model; then each of a sample of
// candidates is accepted (edit applied, place-holders filled) and validation
// must not report the inserted item as unexpected or surplus.
type C07 struct{ base }

func init() { registry["C07"] = func() h.Oracle { return &C07{} } }

func (*C07) Property() string { return "C07" }

// expectedBody computes the candidate labels of a body for a typed prefix.
// optional: labels the statement leaves open ("dynamic").
func expectedBody(c *model.Ctx, prefix string, skipName string) (want []string, optional map[string]bool) {
	optional = map[string]bool{}
	b := c.Body
	if b == nil {
		return nil, optional
	}
	declared := map[string]bool{}
	blockCount := map[string]int{}
	for _, it := range c.Items {
		if it.Attr != nil {
			declared[it.Attr.Name] = true
		}
		if it.Block != nil {
			blockCount[it.Block.Type]++
		}
	}
	set := map[string]bool{}
	cnt, fe, _, _ := model.HasExt(b)
	if cnt && !declared["count"] && strings.HasPrefix("count", prefix) {
		set["count"] = true
	}
	if fe && !declared["for_each"] && strings.HasPrefix("for_each", prefix) {
		set["for_each"] = true
	}
	if len(b.Attrs) > 0 {
		for _, a := range b.Attrs {
			if declared[a.Name] || (a.Comp && !a.Opt) || !strings.HasPrefix(a.Name, prefix) {
				continue
			}
			set[a.Name] = true
		}
	} else if b.Any != nil && prefix == "" {
		set["name"] = true
	}
	for _, bl := range b.Blocks {
		if !strings.HasPrefix(bl.Type, prefix) {
			continue
		}
		if b.Attr(bl.Type) != nil {
			// attribute and block type of the same name: which of the two is
			// offered (the list has no duplicates) is left open
			optional[bl.Type] = true
			delete(set, bl.Type)
			continue
		}
		if bl.Max > 0 && uint64(blockCount[bl.Type]) >= bl.Max {
			continue
		}
		if bl.Type == "dynamic" {
			optional["dynamic"] = true
			continue
		}
		set[bl.Type] = true
	}
	// the placeholder candidate of an any-attribute body is labelled "name": next
	// to a block type called "name" the two labels coincide (no duplicate item)
	if b.Any != nil && b.Block("name") != nil {
		optional["name"] = true
		delete(set, "name")
	}
	// the dynamic-block extension: whether "dynamic" is offered when the body
	// has no block types is left open
	if strings.HasPrefix("dynamic", prefix) {
		optional["dynamic"] = true
	}
	for k := range set { // maporder:ok (sorted below)
		want = append(want, k)
	}
	sort.Strings(want)
	return want, optional
}

func labelsOf(c lang.Candidates) []string {
	out := make([]string, len(c.List))
	for i, cd := range c.List {
		out[i] = cd.Label
	}
	return out
}

func cmpLabels(got, want []string, optional map[string]bool) string {
	var g []string
	for _, x := range got {
		if optional[x] {
			continue
		}
		g = append(g, x)
	}
	if len(g) != len(want) {
		return fmt.Sprintf("got %v, expected %v", got, want)
	}
	for i := range g {
		if g[i] != want[i] {
			return fmt.Sprintf("got %v, expected %v (position %d)", got, want, i)
		}
	}
	return ""
}

var rePlaceholder = regexp.MustCompile(`\$\{\d+(?::([^}]*))?\}|\$\d+`)

func fillSnippet(s string) string {
	return rePlaceholder.ReplaceAllStringFunc(s, func(m string) string {
		sub := rePlaceholder.FindStringSubmatch(m)
		return sub[1]
	})
}

func (o *C07) Check(x *h.Exec, ev *h.Event) {
	if !x.S.Quiescent() {
		return
	}
	c := ev.Check
	for pi, p := range x.S.Paths {
		if p.Spec.Schema == nil {
			continue
		}
		for _, f := range p.Files {
			if f.Rendered == nil || !f.ParseOK || f.Spec == nil || f.Spec.JSON || f.Spec.Raw != nil {
				continue
			}
			ctxOf := map[int]*model.Ctx{}
			model.Walk(p.Spec.Schema, f.Spec.Items, func(mc *model.Ctx) { ctxOf[mc.NodeID] = mc })
			salt := uint64(0)
			ask := func(off int, pre bool) (lang.Candidates, h.Query, bool) {
				salt++
				q := h.Query{Kind: "completion", Path: pi, File: f.Name, Off: off, Prefill: pre, Order: orderFor(c, salt)}
				r := x.Run(q)
				cands, ok := r.Val.(lang.Candidates)
				if !ok || r.Panic != nil || r.Err != nil {
					return cands, q, false
				}
				return cands, q, true
			}
			compare := func(mc *model.Ctx, off int, prefix, what string) bool {
				if mc == nil || mc.Body == nil {
					return false
				}
				if uncertain(mc) {
					x.Cov.Probe("uncertain_blocks_skipped")
					return false
				}
				if c != nil && c.Offsets != nil && !hasInt(c.Offsets, off) {
					return false
				}
				want, optional := expectedBody(mc, prefix, "")
				if len(want) >= 100 {
					return false
				}
				cands, q, ok := ask(off, false)
				if !ok {
					return false
				}
				x.Cov.Probe("body_positions_compared")
				if mc.Eff != nil && mc.Eff.Lookup == model.Found {
					x.Cov.Probe("inside_dependent_body")
				}
				got := labelsOf(cands)
				if d := cmpLabels(got, want, optional); d != "" {
					shape := "body"
					if mc.Eff != nil {
						shape = "block-" + mc.Eff.Lookup
					}
					x.Report("candidate-set", what, shape, fmt.Sprintf("%s at byte %d (prefix %q, %s): %s", what, off, prefix, describeCtx(mc), d), &q)
					return true
				}
				if !sort.StringsAreSorted(got) {
					x.Report("unsorted", what, "", fmt.Sprintf("%s at byte %d: candidates not sorted by name: %v", what, off, got), &q)
					return true
				}
				// accept a sample of candidates and validate
				// (only pure insertions: a candidate accepted over an existing
				// attribute replaces it, which may change the dependency keys)
				if what == "body-whitespace" && len(p.Spec.Validators) > 0 && len(cands.List) > 0 && salt%3 == 0 {
					cd := cands.List[int(mix(uint64(off), salt)%uint64(len(cands.List)))]
					if o.acceptAndValidate(x, pi, f, cd, q) {
						return true
					}
				}
				return false
			}
			// the root body and every block body
			for _, n := range f.Rendered.Nodes {
				if n == nil {
					continue
				}
				switch n.Kind {
				case "block":
					mc := ctxOf[n.ID]
					if mc == nil {
						continue
					}
					// line starts inside the body: before each child item and before the closing brace
					if !n.Item.Block.OneLine || len(n.Item.Block.Body) > 1 {
						for _, off := range lineStarts(f.Text, n.Body.Start, n.Close.Start) {
							if insideChild(f.Rendered, n.ID, off) {
								continue
							}
							if compare(mc, off, "", "body-whitespace") {
								return
							}
						}
					}
					// labels
					parent := ctxOf[n.Parent]
					if mc.Block != nil && n.Item.Block.Type != "dynamic" && !uncertain(mc) {
						for li, ls := range n.Labels {
							if li >= len(mc.Block.Labels) || !mc.Block.Labels[li].Completable || li >= len(n.Item.Block.Labels) {
								continue
							}
							if n.Item.Block.BareLabels {
								continue
							}
							val := n.Item.Block.Labels[li]
							for k := 1; k <= len(val) && k <= 4; k++ {
								off := ls.Start + 1 + k // after the opening quote + k bytes
								if off >= ls.End {
									continue
								}
								if c != nil && c.Offsets != nil && !hasInt(c.Offsets, off) {
									continue
								}
								prefix := val[:k]
								var want []string
								seen := map[string]bool{}
								for _, d := range mc.Block.Dep {
									for _, l := range d.Labels {
										if l.Index == li && strings.HasPrefix(l.Value, prefix) && !seen[l.Value] {
											seen[l.Value] = true
											want = append(want, l.Value)
										}
									}
								}
								sort.Strings(want)
								cands, q, ok := ask(off, false)
								if !ok {
									continue
								}
								x.Cov.Probe("label_positions_compared")
								if d := cmpLabels(labelsOf(cands), want, nil); d != "" {
									x.Report("label-candidates", "label", "", fmt.Sprintf("label %d of %q at byte %d (prefix %q): %s", li, n.Item.Block.Type, off, prefix, d), &q)
									return
								}
							}
						}
					}
					// block type with typed prefix (schema of the parent body)
					if parent != nil && parent.Body != nil && parent.Body.Block(n.Item.Block.Type) != nil {
						t := n.Item.Block.Type
						for k := 1; k < len(t) && k <= 4; k++ {
							if compare(parent, n.Name.Start+k, t[:k], "block-type-prefix") {
								return
							}
						}
					}
				case "attr":
					parent := ctxOf[n.Parent]
					if parent == nil || parent.Body == nil {
						continue
					}
					name := n.Item.Attr.Name
					for k := 1; k < len(name) && k <= 4; k++ {
						if compare(parent, n.Name.Start+k, name[:k], "attr-name-prefix") {
							return
						}
					}
				}
			}
			// root body: line starts of top-level items and end of file
			root := ctxOf[0]
			for _, off := range f.Rendered.InsertPoints {
				if compare(root, off, "", "body-whitespace") {
					return
				}
			}
		}
	}
}

// uncertain: the block or one of its ancestors has keys the statement does not
// define (non-literal key expression) or a half-resolved second level.
func uncertain(mc *model.Ctx) bool {
	for c := mc; c != nil; c = c.Parent {
		if c.Eff != nil && (c.Eff.Uncertain || c.Eff.Lookup == model.Partial) {
			return true
		}
		if c.Item != nil && c.Item.Type == "dynamic" {
			return true
		}
	}
	return false
}

func hasInt(a []int, v int) bool {
	for _, x := range a {
		if x == v {
			return true
		}
	}
	return false
}

func describeCtx(mc *model.Ctx) string {
	if mc.Item == nil {
		return "root body"
	}
	s := fmt.Sprintf("block %s %v", mc.Item.Type, mc.Item.Labels)
	if mc.Eff != nil {
		s += " lookup=" + mc.Eff.Lookup
	}
	return s
}

// lineStarts returns the offsets of line beginnings in (from, to].
func lineStarts(text []byte, from, to int) []int {
	var out []int
	for i := from; i < to && i < len(text); i++ {
		if text[i] == '\n' && i+1 <= to {
			out = append(out, i+1)
		}
	}
	return out
}

// insideChild: off lies inside a child node of block id (multi-line values etc.).
func insideChild(r *world.Rendered, id, off int) bool {
	for _, n := range r.Nodes {
		if n == nil || n.Parent != id || n.Kind == "expr" {
			continue
		}
		if off > n.Range.Start && off < n.Range.End {
			return true
		}
	}
	return false
}

func (o *C07) acceptAndValidate(x *h.Exec, pi int, f *h.FileState, cd lang.Candidate, q h.Query) bool {
	te := cd.TextEdit
	s, e := te.Range.Start.Byte, te.Range.End.Byte
	if s < 0 || e > len(f.Text) || s > e {
		return false // C06's business
	}
	ins := fillSnippet(te.Snippet)
	if cd.Kind == lang.AttributeCandidateKind {
		if strings.HasSuffix(strings.TrimRight(ins, " "), "=") {
			ins += " null"
		}
		ins += "\n"
	} else {
		ins += "\n"
	}
	orig := append([]byte(nil), f.Text...)
	text := append(append(append([]byte(nil), orig[:s]...), ins...), orig[e:]...)
	// diagnostics present before the candidate is accepted do not count
	had := map[string]int{}
	if r0, ok := x.Run(h.Query{Kind: "validate_file", Path: pi, File: f.Name}).Val.(hcl.Diagnostics); ok {
		for _, d := range r0 {
			had[d.Summary+"|"+d.Detail]++
		}
	}
	x.S.SetText(pi, f.Name, text)
	x.S.Quiesce()
	r := x.Run(h.Query{Kind: "validate_file", Path: pi, File: f.Name})
	x.S.SetText(pi, f.Name, orig)
	x.S.Quiesce()
	x.Cov.Probe("candidates_accepted")
	diags, ok := r.Val.(hcl.Diagnostics)
	if !ok {
		return false
	}
	now := map[string]int{}
	for _, d := range diags {
		now[d.Summary+"|"+d.Detail]++
	}
	for _, d := range diags {
		if now[d.Summary+"|"+d.Detail] <= had[d.Summary+"|"+d.Detail] {
			continue
		}
		bad := false
		switch {
		case d.Summary == "Unexpected attribute" && strings.Contains(d.Detail, fmt.Sprintf("%q", cd.Label)):
			bad = true
		case d.Summary == "Unexpected block" && strings.Contains(d.Detail, fmt.Sprintf("%q", cd.Label)):
			bad = true
		case strings.HasPrefix(d.Summary, "Too many blocks specified for") && strings.Contains(d.Summary, fmt.Sprintf("%q", cd.Label)):
			bad = true
		}
		if bad && d.Subject != nil && d.Subject.Start.Byte <= s+len(ins) && d.Subject.End.Byte >= s {
			x.Report("accepted-candidate-rejected", "completion", fmt.Sprintf("kind%d", cd.Kind),
				fmt.Sprintf("accepting candidate %q at byte %d makes validation report: %s: %s", cd.Label, q.Off, d.Summary, d.Detail), &q)
			return true
		}
	}
	return false
}
