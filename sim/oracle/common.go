// Package oracle holds one decision procedure per property. An oracle is
// invoked by the scenario executor at "check" and "round" events, drives the
// real library through the harness and reports violations with a fingerprint
// (property | clause | site | shape).
package oracle

import (
	"fmt"
	"sort"
	"strings"

	h "lssim/harness"
)

func New(property string) h.Oracle {
	switch property {
	case "C01":
		return &C01{}
	case "C03":
		return &C03{}
	}
	if f, ok := registry[property]; ok {
		return f()
	}
	return nil
}

var registry = map[string]func() h.Oracle{}

// Properties lists the properties with an oracle.
func Properties() []string {
	out := []string{"C01", "C03"}
	for k := range registry { // maporder:ok (sorted below)
		out = append(out, k)
	}
	sort.Strings(out)
	return out
}

type base struct{}

func (base) Round(x *h.Exec, ev *h.Event) {}

func mix(a, b uint64) uint64 {
	x := a ^ (b+0x9e3779b97f4a7c15)*0xbf58476d1ce4e5b9
	x ^= x >> 29
	x *= 0x94d049bb133111eb
	x ^= x >> 32
	return x
}

var policies = []string{"asc", "desc", "rotate", "shuffle", "pinfirst", "pinlast"}

// orderFor derives a map-order policy for one execution from the check's key.
func orderFor(c *h.Check, salt uint64) h.Order {
	if c != nil && len(c.Orders) > 0 {
		return c.Orders[int(mix(c.Key, salt)%uint64(len(c.Orders)))]
	}
	var key uint64
	if c != nil {
		key = c.Key
	}
	v := mix(key, salt)
	return h.Order{P: policies[v%uint64(len(policies))], Key: mix(v, 1)}
}

func kindsOr(c *h.Check, def []string) []string {
	if c != nil && len(c.Kinds) > 0 {
		return c.Kinds
	}
	return def
}

func has(ss []string, s string) bool {
	for _, x := range ss {
		if x == s {
			return true
		}
	}
	return false
}

func short(s string, n int) string {
	if len(s) <= n {
		return s
	}
	return s[:n] + "…"
}

// firstDiff describes where two canonical strings first differ.
func firstDiff(a, b string) string {
	n := len(a)
	if len(b) < n {
		n = len(b)
	}
	i := 0
	for i < n && a[i] == b[i] {
		i++
	}
	s := i - 40
	if s < 0 {
		s = 0
	}
	ea, eb := i+60, i+60
	if ea > len(a) {
		ea = len(a)
	}
	if eb > len(b) {
		eb = len(b)
	}
	return fmt.Sprintf("at %d: …%s… vs …%s…", i, a[s:ea], b[s:eb])
}

// splitTop splits the canonical dump of a list result into its top-level
// elements (used to tell a permutation from a content difference).
func splitTop(c string) []string {
	i := strings.IndexByte(c, '[')
	if i < 0 {
		return []string{c}
	}
	depth := 0
	var out []string
	start := i + 1
	inStr := false
	for j := i; j < len(c); j++ {
		ch := c[j]
		if inStr {
			if ch == '\\' {
				j++
			} else if ch == '"' {
				inStr = false
			}
			continue
		}
		switch ch {
		case '"':
			inStr = true
		case '[', '{', '(':
			depth++
		case ']', '}', ')':
			depth--
			if depth == 0 {
				if j > start {
					out = append(out, c[start:j])
				}
				return out
			}
		case ' ':
			if depth == 1 {
				if j > start {
					out = append(out, c[start:j])
				}
				start = j + 1
			}
		}
	}
	return out
}

func diffShape(a, b string) string {
	ea, eb := splitTop(a), splitTop(b)
	if len(ea) == len(eb) && len(ea) > 1 {
		sa := append([]string(nil), ea...)
		sb := append([]string(nil), eb...)
		sort.Strings(sa)
		sort.Strings(sb)
		same := true
		for i := range sa {
			if sa[i] != sb[i] {
				same = false
				break
			}
		}
		if same {
			return "permutation"
		}
	}
	return "content"
}

func h8(s string) [8]byte {
	var out [8]byte
	x := uint64(14695981039346656037)
	for i := 0; i < len(s); i++ {
		x ^= uint64(s[i])
		x *= 1099511628211
	}
	for i := 0; i < 8; i++ {
		out[i] = byte(x >> (8 * i))
	}
	return out
}
