package oracle

import (
	"fmt"
	"sort"
	"strings"

	"github.com/hashicorp/hcl-lang/lang"
	"github.com/hashicorp/hcl/v2"

	h "lssim/harness"
	"lssim/model"
	"lssim/world"
)

// C15: validation reports exactly the schema violations present. The
// diagnostic model walks the generated configuration with the effective
// schema of every body and lists, as a multiset of (severity, summary, start of
// the subject), what the statement requires; ValidateFile and Validate must
// return exactly that multiset. Sub-trees the statement does not define
// (blocks whose key attributes are non-literal expressions, the content of
// dynamic blocks) are left out on both sides.
type C15 struct{ base }

func init() { registry["C15"] = func() h.Oracle { return &C15{} } }

func (*C15) Property() string { return "C15" }

type mdiag struct {
	sev     int // 1 error, 2 warning
	summary string
	start   int // subject start byte; -1 = any
}

func (d mdiag) String() string {
	return fmt.Sprintf("%d|%s|@%d", d.sev, d.summary, d.start)
}

// expectedDiags computes the model's diagnostics for one file and the byte
// ranges (skip) within which nothing is claimed.
// bodySkip holds the same sub-trees narrowed to their bodies: a body-level
// diagnostic of the enclosing body may start at the very byte a skipped block
// starts at (a file beginning with such a block), and is not inside it.
func expectedDiags(schema *world.BodySpec, f *h.FileState) (want []mdiag, skip, bodySkip []world.Span) {
	r := f.Rendered
	node := func(id int) *world.Node {
		if id > 0 && id < len(r.Nodes) {
			return r.Nodes[id]
		}
		return nil
	}
	model.Walk(schema, f.Spec.Items, func(c *model.Ctx) {
		// is this body inside a skipped subtree?
		for p := c; p != nil; p = p.Parent {
			if p.Eff != nil && p.Eff.Uncertain {
				if n := node(p.NodeID); n != nil {
					skip = append(skip, n.Range)
					bodySkip = append(bodySkip, world.Span{Start: n.Open.Start, End: n.Close.End})
				}
				return
			}
			if p.Item != nil && p.Item.Type == "dynamic" && p != c {
				return
			}
		}
		if c.Item != nil && c.Item.Type == "dynamic" {
			// the content of a dynamic block is not modelled
			if n := node(c.NodeID); n != nil {
				skip = append(skip, world.Span{Start: n.Open.Start, End: n.Close.End})
				bodySkip = append(bodySkip, world.Span{Start: n.Open.Start, End: n.Close.End})
			}
			return
		}
		bodyStart := -1
		if n := node(c.NodeID); n != nil {
			bodyStart = n.Open.Start
		}
		if c.Body == nil {
			return // unknown block or block without body schema: nothing is reported inside
		}
		cnt, fe, dyn, _ := model.HasExt(c.Body)
		written := map[string]bool{}
		blockCount := map[string]int{}
		dynCount := map[string]int{}
		for _, it := range c.Items {
			switch {
			case it.Attr != nil:
				name := it.Attr.Name
				written[name] = true
				n := node(it.ID)
				if n == nil {
					continue
				}
				var as *world.AttrSpec
				known := false
				if a := c.Body.Attr(name); a != nil {
					as, known = a, true
				} else if c.Body.Any != nil {
					as, known = c.Body.Any, true
				}
				if (cnt && name == "count") || (fe && name == "for_each") {
					as, known = nil, true
				}
				if !known {
					if !c.Unknown {
						want = append(want, mdiag{1, "Unexpected attribute", n.Range.Start})
					}
					continue
				}
				if as != nil && as.Depr {
					want = append(want, mdiag{2, fmt.Sprintf("%q is deprecated", name), n.Range.Start})
				}
			case it.Block != nil:
				bi := it.Block
				blockCount[bi.Type]++
				if bi.Type == "dynamic" && len(bi.Labels) > 0 {
					dynCount[bi.Labels[0]]++
				}
				n := node(it.ID)
				if n == nil {
					continue
				}
				bs := c.Body.Block(bi.Type)
				if bs == nil {
					if !c.Unknown {
						want = append(want, mdiag{1, "Unexpected block", n.Name.Start})
					}
					continue
				}
				if bs.Depr {
					want = append(want, mdiag{2, fmt.Sprintf("%q is deprecated", bi.Type), n.Name.Start})
				}
				for i := range bi.Labels {
					if i >= len(bs.Labels) && i < len(n.Labels) {
						want = append(want, mdiag{1, fmt.Sprintf("Too many labels specified for %q", bi.Type), n.Labels[i].Start})
					}
				}
				if len(bs.Labels) > len(bi.Labels) {
					want = append(want, mdiag{1, fmt.Sprintf("Not enough labels specified for %q", bi.Type), n.Name.Start})
				}
			}
		}
		for _, a := range c.Body.Attrs {
			if a.Req && !written[a.Name] {
				want = append(want, mdiag{1, fmt.Sprintf("Required attribute %q not specified", a.Name), bodyStart})
			}
		}
		for _, bs := range c.Body.Blocks {
			if bs.Max != 0 && uint64(blockCount[bs.Type]) > bs.Max {
				want = append(want, mdiag{1, fmt.Sprintf("Too many blocks specified for %q", bs.Type), bodyStart})
			}
			if bs.Min != 0 && uint64(blockCount[bs.Type]) < bs.Min && !(dyn && dynCount[bs.Type] > 0) {
				want = append(want, mdiag{1, fmt.Sprintf("Too few blocks specified for %q", bs.Type), bodyStart})
			}
		}
	})
	return want, skip, bodySkip
}

func diagKey(d *hcl.Diagnostic, bodyLevel bool) mdiag {
	sev := 1
	if d.Severity == hcl.DiagWarning {
		sev = 2
	}
	start := -1
	if d.Subject != nil {
		start = d.Subject.Start.Byte
	}
	return mdiag{sev, d.Summary, start}
}

func isBodyLevel(summary string) bool {
	return strings.HasPrefix(summary, "Required attribute") || strings.HasPrefix(summary, "Too many blocks") || strings.HasPrefix(summary, "Too few blocks")
}

// bodyStartOf maps the subject start of a body-level diagnostic to the start
// of the innermost block body containing it (-1 = root body). The parser's
// body range starts at "{" for ordinary blocks but at the first item for
// one-line blocks.
func bodyStartOf(r *world.Rendered, off int) int {
	best, bestLen := -1, 1<<30
	for _, n := range r.Nodes {
		if n == nil || n.Kind != "block" {
			continue
		}
		if off >= n.Open.Start && off <= n.Close.End && n.Close.End-n.Open.Start < bestLen {
			best, bestLen = n.Open.Start, n.Close.End-n.Open.Start
		}
	}
	return best
}

func compareDiags(r *world.Rendered, got hcl.Diagnostics, want []mdiag, skip, bodySkip []world.Span) string {
	inSkip := func(off int) bool {
		for _, s := range skip {
			if off >= s.Start && off < s.End {
				return true
			}
		}
		return false
	}
	inBodySkip := func(off int) bool {
		for _, s := range bodySkip {
			if off >= s.Start && off < s.End {
				return true
			}
		}
		return false
	}
	var g, w []string
	for _, d := range got {
		k := diagKey(d, false)
		if isBodyLevel(k.summary) {
			if k.start >= 0 && inBodySkip(k.start) {
				continue
			}
		} else if k.start >= 0 && inSkip(k.start) {
			continue
		}
		if isBodyLevel(k.summary) {
			k.start = bodyStartOf(r, k.start)
		}
		g = append(g, k.String())
	}
	for _, k := range want {
		if k.start >= 0 && inSkip(k.start) {
			continue
		}
		w = append(w, k.String())
	}
	sort.Strings(g)
	sort.Strings(w)
	// multiset difference
	i, j := 0, 0
	var extra, missing []string
	for i < len(g) || j < len(w) {
		switch {
		case j >= len(w) || (i < len(g) && g[i] < w[j]):
			extra = append(extra, g[i])
			i++
		case i >= len(g) || w[j] < g[i]:
			missing = append(missing, w[j])
			j++
		default:
			i++
			j++
		}
	}
	if len(extra) == 0 && len(missing) == 0 {
		return ""
	}
	return fmt.Sprintf("reported but not expected: %v; expected but not reported: %v", extra, missing)
}

func (o *C15) Check(x *h.Exec, ev *h.Event) {
	if !x.S.Quiescent() {
		return
	}
	c := ev.Check
	salt := uint64(0)
	for pi, p := range x.S.Paths {
		if p.Spec.Schema == nil || len(p.Spec.Validators) < 8 {
			continue
		}
		okFiles := 0
		for _, f := range p.Files {
			if f.Rendered == nil || !f.ParseOK || f.Spec == nil || f.Spec.JSON || f.Spec.Raw != nil {
				continue
			}
			okFiles++
			want, skip, bskip := expectedDiags(p.Spec.Schema, f)
			salt++
			q := h.Query{Kind: "validate_file", Path: pi, File: f.Name, Order: orderFor(c, salt)}
			r := x.Run(q)
			got, ok := r.Val.(hcl.Diagnostics)
			if !ok || r.Panic != nil || r.Err != nil {
				continue
			}
			x.Cov.Probe("files_validated")
			if len(want) > 0 {
				x.Cov.Probe("files_with_expected_diagnostics")
			}
			x.Sample(3, "%s: %d diagnostics expected by the model, %d reported, %d skipped ranges", f.Name, len(want), len(got), len(skip))
			if d := compareDiags(f.Rendered, got, want, skip, bskip); d != "" {
				shape := "extra"
				if strings.Contains(d, "expected but not reported: [1") || strings.Contains(d, "expected but not reported: [2") {
					shape = "missing"
				}
				x.Report("diagnostics", "validate_file", shape, fmt.Sprintf("%s: %s", f.Name, d), &q)
				return
			}
			// Validate (whole path) must agree with ValidateFile
			salt++
			q2 := h.Query{Kind: "validate", Path: pi, Order: orderFor(c, salt)}
			r2 := x.Run(q2)
			if m, ok := r2.Val.(map[string]hcl.Diagnostics); ok {
				if d := compareDiags(f.Rendered, m[f.Name], want, skip, bskip); d != "" {
					x.Report("diagnostics", "validate", "path", fmt.Sprintf("%s (Validate): %s", f.Name, d), &q2)
					return
				}
			} else if dm, ok := asDiagMap(r2.Val); ok {
				if d := compareDiags(f.Rendered, dm[f.Name], want, skip, bskip); d != "" {
					x.Report("diagnostics", "validate", "path", fmt.Sprintf("%s (Validate): %s", f.Name, d), &q2)
					return
				}
			}
		}
	}
}

func asDiagMap(v any) (map[string]hcl.Diagnostics, bool) {
	switch m := v.(type) {
	case lang.DiagnosticsMap:
		return map[string]hcl.Diagnostics(m), true
	}
	return nil, false
}
