package oracle

import (
	h "lssim/harness"
)

// C01: every query is total. Every entry point is run at every visited cursor
// offset of every file of the current state, under a map-order policy derived
// per execution; a recovered panic or an exhausted tick budget is a violation.
type C01 struct{ base }

func (*C01) Property() string { return "C01" }

var c01Positional = []string{"completion", "hover", "signature", "goto_def", "find_refs"}
var c01File = []string{"tokens", "symbols_file", "links", "validate_file", "lenses"}
var c01Path = []string{"validate", "targets", "origins", "writeonly", "symbols_ws", "copy_schema"}

func (o *C01) Check(x *h.Exec, ev *h.Event) {
	c := ev.Check
	judge := func(r *h.Result) bool {
		if r.Panic != nil {
			q := r.Q
			x.Report("panic", r.Panic.Func, r.Panic.Class, r.Panic.Msg+"\n"+short(r.Panic.Stack, 1800), &q)
			return true
		}
		if r.Budget {
			q := r.Q
			x.Report("nontermination", r.Q.Kind, "budget", "tick budget exhausted", &q)
			return true
		}
		return false
	}
	kinds := kindsOr(c, nil)
	want := func(k string) bool { return len(kinds) == 0 || has(kinds, k) }
	salt := uint64(0)
	for pi, p := range x.S.Paths {
		if c != nil && c.Offsets != nil && pi != ev.Path {
			continue
		}
		for _, k := range c01Path {
			if !want(k) {
				continue
			}
			salt++
			q := h.Query{Kind: k, Path: pi, Order: orderFor(c, salt)}
			if k == "symbols_ws" {
				q.Arg = []string{"", "a", "na"}[salt%3]
			}
			if judge(x.Run(q)) && x.Sc != nil && len(x.Viol) > 0 {
				return
			}
		}
		for _, f := range p.Files {
			if c != nil && c.Offsets != nil && ev.File != "" && f.Name != ev.File {
				continue
			}
			for _, k := range c01File {
				if !want(k) {
					continue
				}
				salt++
				if judge(x.Run(h.Query{Kind: k, Path: pi, File: f.Name, Order: orderFor(c, salt)})) {
					return
				}
			}
			for _, off := range x.Offsets(f, c, 3) {
				for _, k := range c01Positional {
					if !want(k) {
						continue
					}
					salt++
					q := h.Query{Kind: k, Path: pi, File: f.Name, Off: off, Order: orderFor(c, salt)}
					if c != nil {
						q.Limit = c.Limit
						if c.Prefill != nil {
							q.Prefill = *c.Prefill
						} else if k == "completion" {
							q.Prefill = mix(c.Key, salt)%2 == 0
						}
					}
					if judge(x.Run(q)) {
						return
					}
				}
			}
		}
	}
}
