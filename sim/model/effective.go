// Package model holds the reference models: small, independent computations
// over the world model (schema spec + configuration items + rendered ranges)
// of what the property statements say the library must return. Nothing here
// calls into hcl-lang's decoder.
package model

import (
	"fmt"
	"sort"
	"strings"

	"github.com/zclconf/go-cty/cty"

	"lssim/world"
)

// Lookup states of a dependent-body selection.
const (
	NoKeys  = "nokeys"  // the block has no dependency keys in force: static body
	Found   = "found"   // a dependent body is registered under the block's keys
	Partial = "partial" // first level found, second level (keyed by its attributes) not
	Failed  = "failed"  // nothing is registered under the keys
)

type Eff struct {
	Body   *world.BodySpec // static body overlaid with the selected dependent body (nil: block without body)
	Dep    *world.DepBodySpec
	Lookup string
	// KeyLabels / KeyAttrs: what selected the body (for links)
	KeyLabels []int
	KeyAttrs  []string
	// FromDefault: key attributes whose value came from the schema default
	FromDefault map[string]bool
	// Uncertain: a key attribute is written with an expression that is neither
	// a literal nor a plain reference; the statement does not say what the
	// block's keys are then, so models make no claim about this block.
	Uncertain bool
}

// keyOf renders one dependency key set canonically (order-independent).
func keyOf(labels []world.LabelDepSpec, attrs []attrKey) string {
	var parts []string
	for _, l := range labels {
		parts = append(parts, fmt.Sprintf("L%d=%q", l.Index, l.Value))
	}
	for _, a := range attrs {
		parts = append(parts, fmt.Sprintf("A%s=%s", a.name, a.val))
	}
	sort.Strings(parts)
	return strings.Join(parts, ";")
}

type attrKey struct {
	name, val string
	dflt      bool
}

func valKey(v cty.Value) string {
	if v == cty.NilVal {
		return "nil"
	}
	if v.Type() == cty.Number && v.IsKnown() && !v.IsNull() {
		return "num:" + v.AsBigFloat().Text('g', 20)
	}
	return "static:" + v.GoString()
}

// exprKey: the dependency-key value an expression denotes: a pure reference
// is keyed by its address, a literal by its value; anything else is no key.
func exprKey(e *world.Expr) (string, bool) {
	if e == nil {
		return "", false
	}
	switch e.K {
	case "ref":
		return "addr:" + e.S, true
	case "str":
		return valKey(cty.StringVal(e.S)), true
	case "num", "bool", "raw":
		defer func() { recover() }()
		v := world.ParseVal(&world.ValSpec{Expr: e.S})
		return valKey(v), true
	}
	return "", false
}

func depKeyOf(d *world.DepBodySpec) string {
	var attrs []attrKey
	for _, a := range d.Attrs {
		v := ""
		if a.Static != nil {
			v = valKey(world.ParseVal(a.Static))
		}
		if a.Addr != "" {
			v = "addr:" + a.Addr
		}
		attrs = append(attrs, attrKey{name: a.Name, val: v})
	}
	return keyOf(d.Labels, attrs)
}

func attrItem(items []*world.Item, name string) *world.AttrItem {
	for _, it := range items {
		if it.Attr != nil && it.Attr.Name == name {
			return it.Attr
		}
	}
	return nil
}

// keysFor computes the dependency keys of a written block given the label
// schemas and the body whose key attributes apply.
func keysFor(bl *world.BlockSpec, body *world.BodySpec, bi *world.BlockItem) (labels []world.LabelDepSpec, attrs []attrKey, certain bool) {
	certain = true
	for i, l := range bl.Labels {
		if !l.DepKey {
			continue
		}
		if i >= len(bi.Labels) {
			// a key label is not written yet: no further keys can be told
			return labels, nil, certain
		}
		labels = append(labels, world.LabelDepSpec{Index: i, Value: bi.Labels[i]})
	}
	if body == nil {
		return labels, nil, certain
	}
	for _, a := range body.Attrs {
		if !a.DepKey {
			continue
		}
		if w := attrItem(bi.Body, a.Name); w != nil {
			if k, ok := exprKey(w.Expr); ok {
				attrs = append(attrs, attrKey{name: a.Name, val: k})
			} else {
				certain = false
			}
			continue
		}
		if a.Default != nil {
			attrs = append(attrs, attrKey{name: a.Name, val: valKey(world.ParseVal(a.Default)), dflt: true})
		}
	}
	return labels, attrs, certain
}

func findDep(bl *world.BlockSpec, key string) *world.DepBodySpec {
	for _, d := range bl.Dep {
		if depKeyOf(d) == key {
			return d
		}
	}
	return nil
}

// Effective computes the body schema in force inside a written block.
func Effective(bl *world.BlockSpec, bi *world.BlockItem) *Eff {
	e := &Eff{Lookup: NoKeys, FromDefault: map[string]bool{}}
	labels, attrs, certain := keysFor(bl, bl.Body, bi)
	e.Uncertain = !certain
	record := func(ls []world.LabelDepSpec, as []attrKey) {
		e.KeyLabels, e.KeyAttrs = nil, nil
		for _, l := range ls {
			e.KeyLabels = append(e.KeyLabels, l.Index)
		}
		for _, a := range as {
			e.KeyAttrs = append(e.KeyAttrs, a.name)
			if a.dflt {
				e.FromDefault[a.name] = true
			}
		}
	}
	if len(labels) == 0 && len(attrs) == 0 {
		e.Body = overlay(bl.Body, nil, bl)
		return e
	}
	record(labels, attrs)
	d1 := findDep(bl, keyOf(labels, attrs))
	if d1 == nil {
		e.Lookup = Failed
		e.Body = overlay(bl.Body, nil, bl)
		return e
	}
	e.Lookup, e.Dep = Found, d1
	// second level: key attributes declared by the selected body
	second := false
	if d1.Body != nil {
		for _, a := range d1.Body.Attrs {
			if a.DepKey {
				second = true
			}
		}
	}
	if second {
		l2, a2, c2 := keysFor(bl, d1.Body, bi)
		if !c2 {
			e.Uncertain = true
		}
		if d2 := findDep(bl, keyOf(l2, a2)); d2 != nil && (len(l2) > 0 || len(a2) > 0) {
			e.Dep = d2
			record(l2, a2)
		} else {
			e.Lookup = Partial
		}
	}
	e.Body = overlay(bl.Body, e.Dep.Body, bl)
	return e
}

// overlay: static body overlaid with a dependent body, plus the dynamic-block
// extension's derived block types.
func overlay(static, dep *world.BodySpec, bl *world.BlockSpec) *world.BodySpec {
	if static == nil && dep == nil {
		return nil
	}
	m := &world.BodySpec{}
	if static != nil {
		*m = *static
		m.Attrs = append([]*world.AttrSpec(nil), static.Attrs...)
		m.Blocks = append([]*world.BlockSpec(nil), static.Blocks...)
	}
	staticDyn := m.Ext != nil && m.Ext.Dynamic
	if dep != nil {
		for _, a := range dep.Attrs {
			replaced := false
			for i, x := range m.Attrs {
				if x.Name == a.Name {
					m.Attrs[i] = a
					replaced = true
				}
			}
			if !replaced {
				m.Attrs = append(m.Attrs, a)
			}
		}
		for _, b := range dep.Blocks {
			if staticDyn && b.Body != nil {
				b = withDynamic(b)
			}
			replaced := false
			for i, x := range m.Blocks {
				if x.Type == b.Type {
					m.Blocks[i] = b
					replaced = true
				}
			}
			if !replaced {
				m.Blocks = append(m.Blocks, b)
			}
		}
		m.TargetableAs = append(append([]*world.TargetableSpec(nil), m.TargetableAs...), dep.TargetableAs...)
		m.DocsLink = dep.DocsLink
		m.Targets = dep.Targets
		if dep.Ext != nil {
			m.Ext = dep.Ext
		}
		if staticDyn && len(dep.Blocks) > 0 {
			m.Blocks = append(m.Blocks, &world.BlockSpec{Type: "dynamic", Labels: []*world.LabelSpec{{Name: "name", DepKey: true, Completable: true}}, Body: &world.BodySpec{}})
		}
	} else if staticDyn && len(m.Blocks) > 0 {
		for i, b := range m.Blocks {
			if b.Body != nil {
				m.Blocks[i] = withDynamic(b)
			}
		}
		m.Blocks = append(m.Blocks, &world.BlockSpec{Type: "dynamic", Labels: []*world.LabelSpec{{Name: "name", DepKey: true, Completable: true}}, Body: &world.BodySpec{}})
	}
	m.SortSpec()
	return m
}

// withDynamic: the dynamic-block extension is handed down to nested blocks.
func withDynamic(b *world.BlockSpec) *world.BlockSpec {
	nb := *b
	body := *b.Body
	ext := world.ExtSpec{}
	if body.Ext != nil {
		ext = *body.Ext
	}
	ext.Dynamic = true
	body.Ext = &ext
	nb.Body = &body
	return &nb
}

// HasExt reports the extension flags of a body.
func HasExt(b *world.BodySpec) (count, forEach, dynamic, selfRefs bool) {
	if b == nil || b.Ext == nil {
		return
	}
	return b.Ext.Count, b.Ext.ForEach, b.Ext.Dynamic, b.Ext.SelfRefs
}

// Ctx is a position in the configuration tree together with the schema in force.
type Ctx struct {
	Body    *world.BodySpec // effective body schema (nil = unknown block / no body)
	Items   []*world.Item   // the items written in this body
	Block   *world.BlockSpec
	Item    *world.BlockItem
	Eff     *Eff
	NodeID  int  // node id of the block (0 = root)
	Unknown bool // inside a block whose dependent body was not (fully) resolved, or below one
	Depth   int
	Parent  *Ctx
}

// Walk visits every body of a file (root first, then nested blocks
// depth-first) with its effective schema.
func Walk(root *world.BodySpec, items []*world.Item, fn func(c *Ctx)) {
	var rec func(c *Ctx)
	rec = func(c *Ctx) {
		fn(c)
		for _, it := range c.Items {
			if it.Block == nil {
				continue
			}
			child := &Ctx{Items: it.Block.Body, Item: it.Block, NodeID: it.ID, Depth: c.Depth + 1, Parent: c, Unknown: c.Unknown}
			var bs *world.BlockSpec
			if c.Body != nil {
				bs = c.Body.Block(it.Block.Type)
			}
			child.Block = bs
			if bs != nil && bs.Body != nil {
				child.Eff = Effective(bs, it.Block)
				child.Body = child.Eff.Body
				if child.Eff.Lookup == Failed || child.Eff.Lookup == Partial {
					child.Unknown = true
				}
			} else if bs != nil {
				child.Eff = &Eff{Lookup: NoKeys}
			}
			rec(child)
		}
	}
	rec(&Ctx{Body: root, Items: items})
}
