package model

import (
	"fmt"
	"strings"
	"unicode"
	"unicode/utf8"

	"lssim/world"
)

// XOrigin is an origin the statement requires (Must) for a written reference.
type XOrigin struct {
	Kind  string // L local | P path | D direct
	Start int
	End   int
	Addr  string
	File  string
}

func (o XOrigin) Key() string { return fmt.Sprintf("%s|%d-%d|%s", o.Kind, o.Start, o.End, o.Addr) }

// OriginModel: what CollectReferenceOrigins must return for one file: the
// required origins and the spans inside which the statement leaves the answer
// open (May); everywhere else nothing may be reported.
type OriginModel struct {
	Must []XOrigin
	May  []world.Span
}

// NormAddr renders a traversal text the way lang.Address.String does.
func NormAddr(s string) string {
	// a.b[0]["k"] -> a.b[0]["k"]; numbers inside brackets as integers
	return strings.ReplaceAll(s, " ", "")
}

type originWalker struct {
	r      *world.Rendered
	file   string
	m      *OriginModel
	funcs  map[string]*world.FuncSpec
	selfOK bool
	iter   map[string]bool
}

func (w *originWalker) span(e *world.Expr) world.Span {
	if e == nil || e.ID <= 0 || e.ID >= len(w.r.Nodes) || w.r.Nodes[e.ID] == nil {
		return world.Span{}
	}
	return w.r.Nodes[e.ID].Range
}

func (w *originWalker) may(e *world.Expr) {
	if e == nil {
		return
	}
	s := w.span(e)
	if s.End > s.Start {
		w.m.May = append(w.m.May, s)
	}
}

func isRefText(s string) bool {
	if s == "" {
		return false
	}
	c, _ := utf8.DecodeRuneInString(s)
	return c == '_' || c >= 'a' && c <= 'z' || c >= 'A' && c <= 'Z' || (c >= 0x80 && unicode.IsLetter(c))
}

func typeShape(t string) string {
	switch {
	case strings.HasPrefix(t, "list("), strings.HasPrefix(t, "set("), strings.HasPrefix(t, "tuple("):
		return "seq"
	case strings.HasPrefix(t, "map("), strings.HasPrefix(t, "object("):
		return "obj"
	case t == "any" || t == "":
		return "dyn"
	}
	return "prim"
}

// convertible: can a value of type from stand where type to is expected
// (cty's conversion rules for primitive types; any accepts everything).
func convertible(from, to string) bool {
	if to == "any" || to == "" || from == "any" || from == to {
		return true
	}
	prim := func(t string) bool { return t == "string" || t == "number" || t == "bool" }
	if prim(from) && prim(to) {
		return from == "string" || to == "string"
	}
	if !prim(from) && !prim(to) {
		// collections / objects: left open (element-wise conversion rules)
		return typeShape(from) == typeShape(to) || typeShape(from) == "dyn" || typeShape(to) == "dyn" ||
			strings.Contains(from, "any") || strings.Contains(to, "any")
	}
	return false
}

// Convertible is the model's (deliberately coarse) type compatibility.
func Convertible(from, to string) bool { return convertible(from, to) }

func elemType(t string) string {
	for _, p := range []string{"list(", "set(", "map("} {
		if strings.HasPrefix(t, p) {
			return t[len(p) : len(t)-1]
		}
	}
	return "any"
}

// hasDynamicPart: the expression contains something other than literal text.
func hasDynamicPart(e *world.Expr) bool {
	dyn := false
	e.Walk(func(x *world.Expr) {
		switch x.K {
		case "ref", "call", "for", "raw", "heredoc", "kw", "cond", "bin", "un", "list", "obj", "index":
			dyn = true
		}
	})
	return dyn
}

// anyExpr: every reference at any depth is an origin.
func (w *originWalker) anyExpr(e *world.Expr, typ string) {
	if e == nil {
		return
	}
	switch e.K {
	case "ref", "kw":
		// a bare word in an expression place is a reference as far as the text goes
		w.ref(e)
	case "type":
		w.may(e)
	case "paren":
		w.anyExpr(e.A[0], typ)
	case "index":
		if len(e.A) == 2 && !hasDynamicPart(e.A[1]) {
			// a literal key is part of the traversal itself: one origin for the
			// whole text; how a non-integer or computed key is rendered is open
			w.may(e)
			return
		}
		// not decoded structurally: every variable inside is an origin
		for _, a := range e.A {
			w.anyExpr(a, "any")
		}
	case "tmpl":
		// "${x}" alone is x itself (HCL unwraps a single interpolation), so it
		// is type-correct wherever x is; a template with more parts is a string
		wrap := len(e.A) == 1 && e.A[0].K != "str"
		if !wrap && !convertible("string", typ) {
			w.may(e)
			return
		}
		for _, a := range e.A {
			if a.K == "str" {
				continue
			}
			w.anyExpr(a, "any")
		}
	case "bin":
		res, operand := "bool", "bool"
		switch e.S {
		case "+", "-", "*", "/", "%":
			res, operand = "number", "number"
		case "<", ">", "<=", ">=":
			operand = "number"
		case "==", "!=":
			operand = "any"
		}
		if !convertible(res, typ) {
			w.may(e) // a type-incorrect operation is not decoded
			return
		}
		w.anyExpr(e.A[0], operand)
		w.anyExpr(e.A[1], operand)
	case "un":
		res := "bool"
		if e.S == "-" {
			res = "number"
		}
		if !convertible(res, typ) {
			w.may(e)
			return
		}
		w.anyExpr(e.A[0], res)
	case "cond":
		// the statement lists conditionals; how the branches are typed is left open
		w.may(e)
	case "call":
		fs := w.funcs[e.S]
		if fs == nil || e.Flag == "expand" || !convertible(fs.Return, typ) {
			w.may(e) // unknown function, or one that cannot produce the expected type
			return
		}
		for i, a := range e.A {
			switch {
			case i < len(fs.Params):
				w.anyExpr(a, fs.Params[i].Type)
			case fs.VarParam != nil:
				w.anyExpr(a, fs.VarParam.Type)
			default:
				w.may(a) // an argument the function has no parameter for
			}
		}
	case "for":
		// iterator variables are not references to declarations
		saved := w.iter
		w.iter = map[string]bool{}
		for k, v := range saved { // maporder:ok (copy)
			w.iter[k] = v
		}
		for _, n := range strings.Split(e.S, ",") {
			w.iter[strings.TrimSpace(n)] = true
		}
		// the statement lists for expressions; which parts are walked is left open
		w.may(e)
		w.iter = saved
	case "list":
		switch typeShape(typ) {
		case "seq":
			if strings.HasPrefix(typ, "tuple(") {
				w.may(e)
				return
			}
			for _, a := range e.A {
				w.anyExpr(a, elemType(typ))
			}
		default:
			w.may(e)
		}
	case "obj":
		switch {
		case strings.HasPrefix(typ, "map("):
			for i, a := range e.A {
				if e.Keys[i].K != "str" && e.Keys[i].K != "kw" {
					w.may(e.Keys[i])
				}
				w.anyExpr(a, elemType(typ))
			}
		default:
			w.may(e)
		}
	case "heredoc", "raw":
		w.may(e)
	}
}

func (w *originWalker) ref(e *world.Expr) {
	s := w.span(e)
	if s.End <= s.Start || !isRefText(e.S) {
		return
	}
	root := e.S
	if i := strings.IndexAny(root, ".["); i >= 0 {
		root = root[:i]
	}
	if w.iter[root] {
		w.m.May = append(w.m.May, s)
		return
	}
	if root == "self" && !w.selfOK {
		return // must not be reported
	}
	if strings.Contains(e.S, "[") && !strings.HasSuffix(e.S, "]") || strings.Contains(e.S, "[*]") {
		w.m.May = append(w.m.May, s)
		return
	}
	w.m.Must = append(w.m.Must, XOrigin{Kind: "L", Start: s.Start, End: s.End, Addr: NormAddr(e.S), File: w.file})
}

// consExpr walks an expression under a constraint.
func (w *originWalker) consExpr(e *world.Expr, c *world.ConsSpec) {
	if e == nil {
		return
	}
	if c == nil {
		w.may(e)
		return
	}
	switch c.K {
	case "any":
		w.anyExpr(e, c.Type)
	case "ref":
		if e.K == "ref" {
			w.ref(e)
		} else {
			w.may(e)
		}
	case "littype", "litval", "kw", "typedecl":
		// reserved for literals, keywords, type names: nothing - except that a
		// bare word in such a place is text the parser reads as a traversal; the
		// statement speaks of "references written", so those stay open
		if e.K == "ref" || e.K == "kw" || e.K == "type" {
			w.may(e)
		}
		if c.K == "littype" && typeShape(c.Type) != "prim" {
			w.may(e)
		}
	case "list", "set":
		if e.K == "list" {
			for _, a := range e.A {
				w.consExpr(a, c.Elem)
			}
		} else {
			w.may(e)
		}
	case "tuple":
		if e.K == "list" {
			for i, a := range e.A {
				if i < len(c.Elems) {
					w.consExpr(a, c.Elems[i])
				} else {
					w.may(a)
				}
			}
		} else {
			w.may(e)
		}
	case "map":
		if e.K == "obj" {
			for i, a := range e.A {
				if e.Keys[i].K != "str" && e.Keys[i].K != "kw" {
					w.may(e.Keys[i])
				}
				w.consExpr(a, c.Elem)
			}
		} else {
			w.may(e)
		}
	case "object":
		if e.K == "obj" {
			for i, a := range e.A {
				k := e.Keys[i]
				var as *world.AttrSpec
				if k.K == "str" || k.K == "kw" {
					for _, x := range c.Attrs {
						if x.Name == k.S {
							as = x
						}
					}
				} else {
					w.may(k)
				}
				if as != nil {
					w.consExpr(a, as.Cons)
				} else if k.K != "str" && k.K != "kw" {
					w.may(a)
				}
			}
		} else {
			w.may(e)
		}
	case "oneof":
		// one-of admits a reference wherever one of its alternatives does: the
		// required origins are the union over the alternatives (each once); what
		// any alternative leaves open stays open
		seen := map[string]bool{}
		for _, m := range w.m.Must {
			seen[m.Key()] = true
		}
		for _, alt := range c.Elems {
			sub := &OriginModel{}
			sw := *w
			sw.m = sub
			sw.consExpr(e, alt)
			for _, m := range sub.Must {
				if !seen[m.Key()] {
					seen[m.Key()] = true
					w.m.Must = append(w.m.Must, m)
				}
			}
			w.m.May = append(w.m.May, sub.May...)
		}
	default:
		w.may(e)
	}
}

// Origins computes the origin model of one rendered file.
func Origins(schema *world.BodySpec, f *world.FileSpec, r *world.Rendered, funcs []*world.FuncSpec) *OriginModel {
	m := &OriginModel{}
	fn := map[string]*world.FuncSpec{}
	for _, x := range funcs {
		fn[x.Name] = x
	}
	node := func(id int) *world.Node {
		if id > 0 && id < len(r.Nodes) {
			return r.Nodes[id]
		}
		return nil
	}
	Walk(schema, f.Items, func(c *Ctx) {
		for p := c; p != nil; p = p.Parent {
			open := false
			if p.Eff != nil && (p.Eff.Uncertain || p.Eff.Lookup == Partial) {
				open = true
			}
			if p.Item != nil && p.Item.Type == "dynamic" {
				open = true
			}
			if open {
				if n := node(p.NodeID); n != nil {
					m.May = append(m.May, n.Range)
				}
				return
			}
		}
		if c.Body == nil {
			return // unknown to the schema: nothing
		}
		cnt, fe, _, self := HasExt(c.Body)
		for _, it := range c.Items {
			if it.Attr == nil {
				continue
			}
			n := node(it.ID)
			if n == nil {
				continue
			}
			name := it.Attr.Name
			w := &originWalker{r: r, file: r.Name, m: m, funcs: fn, selfOK: self, iter: map[string]bool{}}
			switch {
			case cnt && name == "count":
				w.anyExpr(it.Attr.Expr, "number")
				continue
			case fe && name == "for_each":
				m.May = append(m.May, n.Value)
				continue
			}
			as := c.Body.Attr(name)
			if as == nil {
				as = c.Body.Any
			}
			if as == nil {
				continue // unknown attribute: nothing
			}
			if as.OriginFor != nil {
				var parts []string
				ok := len(as.OriginFor.Steps) > 0
				for _, s := range as.OriginFor.Steps {
					switch s.K {
					case "static":
						parts = append(parts, s.Name)
					case "attrname":
						parts = append(parts, name)
					default:
						ok = false
					}
				}
				if ok {
					m.Must = append(m.Must, XOrigin{Kind: "P", Start: n.Name.Start, End: n.Name.End, Addr: strings.Join(parts, "."), File: r.Name})
				}
			}
			if as.DepKey && c.Body.Targets != nil {
				m.Must = append(m.Must, XOrigin{Kind: "D", Start: n.Value.Start, End: n.Value.End, File: r.Name})
			}
			w.consExpr(it.Attr.Expr, as.Cons)
		}
	})
	return m
}
