package harness

import (
	"fmt"
	"os"
	"strings"
	"sync"

	"lssim/deep"
	"simrt"
)

// Snapshot is the structural dump of everything the queries share: every
// path's PathContext (schema tree, files incl. AST and bytes, functions,
// targets, origins, validators), the decoder context and all package-level
// variables of the code under test.
func (s *Store) Snapshot() string { return s.snapshot(false) }

// SnapshotLight leaves out the parsed syntax trees (file bytes are kept); it is
// what the scheduler compares at every context switch, the full snapshot being
// compared at the start and the end of a round.
func (s *Store) SnapshotLight() string { return s.snapshot(true) }

func (s *Store) snapshot(light bool) string {
	var b strings.Builder
	o := deep.Options{Identity: true, Funcs: true, MaxDepth: 400}
	if light {
		o.SkipFields = map[string]bool{"File.Body": true, "File.Nav": true}
	}
	for _, p := range s.Paths {
		fmt.Fprintf(&b, "PATH %d ", p.Index)
		b.WriteString(deep.Dump(p.ctx, o))
		b.WriteByte('\n')
	}
	b.WriteString("DECCTX ")
	b.WriteString(deep.Dump(&s.DecCtx, o))
	b.WriteByte('\n')
	for _, v := range simrt.PkgVars() {
		b.WriteString("VAR " + v.Name + " ")
		b.WriteString(deep.Dump(v.Ptr, o))
		b.WriteByte('\n')
	}
	return b.String()
}

// SnapshotInputs dumps what the caller supplied and never replaces by itself:
// every path's schema, functions and validators, the decoder context and the
// package-level variables - not the files and the collected target/origin sets
// the store republishes. It is taken when the store is built (and after a
// schema swap), before any library code has run, so that changes made by the
// indexer's own calls (CollectReferenceTargets/Origins) are seen as well.
func (s *Store) SnapshotInputs() string {
	var b strings.Builder
	o := deep.Options{Identity: true, Funcs: true, MaxDepth: 400}
	for _, p := range s.Paths {
		fmt.Fprintf(&b, "PATH %d SCHEMA ", p.Index)
		b.WriteString(deep.Dump(p.Schema, o))
		b.WriteString("\nFUNCS ")
		b.WriteString(deep.Dump(p.Funcs, o))
		b.WriteByte('\n')
	}
	b.WriteString("DECCTX ")
	b.WriteString(deep.Dump(&s.DecCtx, o))
	b.WriteByte('\n')
	for _, v := range simrt.PkgVars() {
		b.WriteString("VAR " + v.Name + " ")
		b.WriteString(deep.Dump(v.Ptr, o))
		b.WriteByte('\n')
	}
	return b.String()
}

// SnapDiff describes the first difference between two snapshots: the nearest
// enclosing field name and some context.
func SnapDiff(a, b string) (field, context string) {
	n := len(a)
	if len(b) < n {
		n = len(b)
	}
	i := 0
	for i < n && a[i] == b[i] {
		i++
	}
	// package-level variables are listed last, one "VAR <name> <value>" line each
	if k := strings.LastIndex(a[:i], "VAR "); k >= 0 && (k == 0 || a[k-1] == '\n') {
		name := a[k+4:]
		if e := strings.IndexAny(name, " \n"); e >= 0 {
			name = name[:e]
		}
		if e := strings.LastIndex(name, "/"); e >= 0 {
			name = name[e+1:]
		}
		s := i - 120
		if s < k {
			s = k
		}
		ea, eb := i+120, i+120
		if ea > len(a) {
			ea = len(a)
		}
		if eb > len(b) {
			eb = len(b)
		}
		return "var:" + name, fmt.Sprintf("before: …%s…\nafter:  …%s…", a[s:ea], b[s:eb])
	}
	// nearest "Name:" before i
	j := i
	for j > 0 {
		if a[j-1] == ':' {
			k := j - 1
			for k > 0 && (a[k-1] == '_' || a[k-1] >= 'a' && a[k-1] <= 'z' || a[k-1] >= 'A' && a[k-1] <= 'Z' || a[k-1] >= '0' && a[k-1] <= '9') {
				k--
			}
			if k < j-1 && a[k] >= 'A' && a[k] <= 'Z' {
				field = a[k : j-1]
				break
			}
		}
		j--
	}
	s := i - 120
	if s < 0 {
		s = 0
	}
	ea, eb := i+120, i+120
	if ea > len(a) {
		ea = len(a)
	}
	if eb > len(b) {
		eb = len(b)
	}
	return field, fmt.Sprintf("before: …%s…\nafter:  …%s…", a[s:ea], b[s:eb])
}

// ---------------------------------------------------------------------------
// cooperative scheduler

type simTask struct {
	id      int
	t       *simrt.Task
	queries []Query
	results []*Result
	resume  chan struct{}
	done    bool
	sess    *Session
}

type RoundResult struct {
	Results   [][]*Result // per task
	Switches  int
	Decisions []int    // task chosen per slice
	SnapDiffs []string // snapshot mismatches observed at context switches
	RaceLog   string   // new race-detector output produced during the round
}

var raceLogPath = func() string {
	for _, kv := range strings.Fields(os.Getenv("GORACE")) {
		if strings.HasPrefix(kv, "log_path=") {
			return strings.TrimPrefix(kv, "log_path=") + fmt.Sprintf(".%d", os.Getpid())
		}
	}
	return ""
}()

func raceLogSize() int64 {
	if raceLogPath == "" {
		return 0
	}
	st, err := os.Stat(raceLogPath)
	if err != nil {
		return 0
	}
	return st.Size()
}

func raceLogFrom(off int64) string {
	if raceLogPath == "" {
		return ""
	}
	b, err := os.ReadFile(raceLogPath)
	if err != nil || int64(len(b)) <= off {
		return ""
	}
	return string(b[off:])
}

// RunRound executes the tasks of a round under the scenario's schedule. Tasks
// are real goroutines released one at a time; the hand-off channel operations
// are hidden from the race detector (runtime.RaceDisable), so any conflicting
// access of two tasks to shared memory is reported regardless of the
// interleaving chosen. snap (optional) is called at every context switch.
func (s *Store) RunRound(r *Round, snapshotEach bool) *RoundResult {
	out := &RoundResult{}
	n := len(r.Tasks)
	if n == 0 {
		return out
	}
	var base, full string
	perSwitch := snapshotEach && !RaceBuild // under -race the scheduler must not occupy shadow cells between slices
	if snapshotEach {
		if perSwitch {
			base = s.SnapshotLight()
		}
		full = s.Snapshot()
	}
	logStart := raceLogSize()

	yielded := make(chan int)
	tasks := make([]*simTask, n)
	var wg sync.WaitGroup
	for i := 0; i < n; i++ {
		qs := r.Tasks[i]
		var ord Order
		if len(qs) > 0 {
			ord = qs[0].Order
		}
		tk := &simTask{id: i, queries: qs, resume: make(chan struct{}), sess: s.NewSession()}
		tk.t = NewTask(i+1, ord, DefaultBudget)
		tk.t.Yield = func(t *simrt.Task) {
			yielded <- tk.id
			<-tk.resume
		}
		tasks[i] = tk
	}
	for _, tk := range tasks {
		tk := tk
		wg.Add(1)
		go func() {
			// The whole task runs with synchronisation events ignored: besides the
			// scheduler's hand-off this also hides the incidental happens-before
			// edges that sync.Pool (fmt, regexp) would otherwise create between
			// tasks - edges that depend on per-P pool state and on the race
			// runtime's random dropping of pooled objects, i.e. that would make
			// detection irreproducible. Reports about the pooled objects
			// themselves are filtered by the oracle (no library frame on top).
			raceDisable()
			<-tk.resume
			for _, q := range tk.queries {
				p, _ := simrt.ParsePolicy(q.Order.P)
				tk.t.Policy, tk.t.Key = p, q.Order.Key
				tk.t.ResetSchedule()
				tk.results = append(tk.results, tk.sess.ExecInTask(q))
			}
			tk.done = true
			yielded <- tk.id
			raceEnable()
			wg.Done()
		}()
	}
	order := make([]int, n)
	for i := range order {
		order[i] = i
	}
	if r.Reverse {
		for i, j := 0, n-1; i < j; i, j = i+1, j-1 {
			order[i], order[j] = order[j], order[i]
		}
	}
	runnable := append([]int(nil), order...)
	slice := 0
	for len(runnable) > 0 {
		pick := 0
		if len(r.Pick) > 0 {
			pick = r.Pick[slice%len(r.Pick)]
		}
		if pick < 0 {
			pick = -pick
		}
		ri := pick % len(runnable)
		tk := tasks[runnable[ri]]
		quantum := int64(0)
		if len(r.Switch) > 0 {
			quantum = int64(r.Switch[slice%len(r.Switch)])
		}
		setPreempt(tk.t, quantum)
		simrt.SetCurrent(tk.t)
		out.Decisions = append(out.Decisions, tk.id)
		raceDisable()
		tk.resume <- struct{}{}
		<-yielded
		raceEnable()
		simrt.SetCurrent(nil)
		slice++
		if taskDone(tk) {
			runnable = append(runnable[:ri], runnable[ri+1:]...)
		} else {
			out.Switches++
		}
		if perSwitch && slice <= 8 {
			if now := s.SnapshotLight(); now != base {
				f, c := SnapDiff(base, now)
				out.SnapDiffs = append(out.SnapDiffs, f+"\n"+c)
				base = now
			}
		}
	}
	wg.Wait() // real synchronisation: results are read after this join
	if snapshotEach {
		if now := s.Snapshot(); now != full {
			f, c := SnapDiff(full, now)
			out.SnapDiffs = append(out.SnapDiffs, f+"\n"+c)
		}
	}
	for _, tk := range tasks {
		out.Results = append(out.Results, tk.results)
		MergeTaskStats(tk.t)
	}
	out.RaceLog = raceLogFrom(logStart)
	return out
}

//go:norace
func setPreempt(t *simrt.Task, q int64) { t.Preempt = q }

//go:norace
func taskDone(tk *simTask) bool { return tk.done }
