package harness

import (
	"context"
	"fmt"
	"reflect"
	"regexp"
	"runtime/debug"
	"sort"
	"strings"
	"unsafe"

	"github.com/hashicorp/hcl-lang/decoder"
	"github.com/hashicorp/hcl-lang/lang"
	"github.com/hashicorp/hcl-lang/schema"
	"github.com/hashicorp/hcl/v2"

	"lssim/deep"
	"simrt"
)

// Order is a map-order policy for one query execution.
type Order struct {
	P   string `json:"p,omitempty"` // asc desc rotate shuffle pinfirst pinlast
	Key uint64 `json:"key,omitempty"`
}

// Query is one request to the library.
type Query struct {
	Kind    string `json:"q"`
	Path    int    `json:"path"`
	File    string `json:"file,omitempty"`
	Off     int    `json:"off,omitempty"`
	Arg     string `json:"arg,omitempty"` // workspace symbol query
	Prefill bool   `json:"prefill,omitempty"`
	Limit   uint   `json:"limit,omitempty"` // 0 = leave default (100)
	Order   Order  `json:"order,omitempty"`
	// CancelAfter > 0: the request's context reports cancellation from its
	// N-th Err() call on (a client cancelling while the request is running)
	CancelAfter int `json:"cancel_after,omitempty"`
}

// cancelCtx is a context whose cancellation arrives at a point the scenario
// names: after a number of Err() calls by the code under test.
type cancelCtx struct {
	context.Context
	left  int
	done  chan struct{}
	fired func()
}

func (c *cancelCtx) Err() error {
	if c.left > 0 {
		c.left--
		if c.left == 0 {
			close(c.done)
		}
		return nil
	}
	if c.fired != nil {
		c.fired()
		c.fired = nil
	}
	return context.Canceled
}

func (c *cancelCtx) Done() <-chan struct{} { return c.done }

// QueryKinds lists every entry point the harness can drive.
var QueryKinds = []string{
	"completion", "hover", "signature", "tokens", "symbols_file", "symbols_ws", "links",
	"validate", "validate_file", "targets", "origins", "writeonly", "goto_def", "find_refs", "lenses", "copy_schema",
}

// Positional kinds take a cursor offset.
func Positional(kind string) bool {
	switch kind {
	case "completion", "hover", "signature", "goto_def", "find_refs":
		return true
	}
	return false
}

// PerFile kinds take a file name (positional ones too).
func PerFile(kind string) bool {
	switch kind {
	case "tokens", "symbols_file", "links", "validate_file", "lenses":
		return true
	}
	return Positional(kind)
}

type PanicInfo struct {
	Class string // normalised message
	Msg   string
	Func  string // innermost hcl-lang function on the stack
	Stack string
}

type Result struct {
	Q      Query
	Val    any
	Err    error
	Panic  *PanicInfo
	Budget bool // tick budget exceeded
	Ticks  int64
	canon  string
	hasC   bool
}

const DefaultBudget = 5_000_000

var (
	reIdx   = regexp.MustCompile(`\[[-0-9:]+\]|with (length|capacity) [0-9]+|[0-9]+`)
	reClosure = regexp.MustCompile(`(-range[0-9]+|\.func[0-9]+(\.[0-9]+)*|\.gowrap[0-9]+|\[\.\.\.\])+$`)
	reFrame = regexp.MustCompile(`(?m)^(github\.com/hashicorp/hcl-lang/[^\s(]+(?:\([^)]*\))?[^\s(]*)\(`)
)

func panicInfo(r any, stack []byte) *PanicInfo {
	msg := fmt.Sprint(r)
	cls := reIdx.ReplaceAllString(msg, "N")
	fn := ""
	for _, line := range strings.Split(string(stack), "\n") {
		if strings.HasPrefix(line, "github.com/hashicorp/hcl-lang/") {
			i := strings.LastIndex(line, "(")
			if i > 0 {
				fn = line[:i]
			} else {
				fn = line
			}
			fn = strings.TrimPrefix(fn, "github.com/hashicorp/hcl-lang/")
			fn = reClosure.ReplaceAllString(fn, "")
			break
		}
	}
	return &PanicInfo{Class: cls, Msg: msg, Func: fn, Stack: string(stack)}
}

// NewTask builds a simulator task for an order.
func NewTask(id int, o Order, budget int64) *simrt.Task {
	p, _ := simrt.ParsePolicy(o.P)
	return &simrt.Task{ID: id, Policy: p, Key: o.Key, Budget: budget}
}

// Session is a decoder kept across queries (history dimension of C03/C04).
type Session struct {
	S *Store
	D *decoder.Decoder
}

func (s *Store) NewSession() *Session {
	d := decoder.NewDecoder(s.Reader())
	d.SetContext(s.DecCtx)
	return &Session{S: s, D: d}
}

// Exec runs q on a fresh decoder.
func (s *Store) Exec(q Query) *Result { return s.NewSession().Exec(q) }

// Exec runs q in this session under its own simulator task.
func (se *Session) Exec(q Query) *Result {
	t := NewTask(0, q.Order, DefaultBudget)
	prev := simrt.Current()
	simrt.SetCurrent(t)
	se.S.BeginQuery(q.Order.P)
	res := se.ExecInTask(q)
	se.S.EndQuery()
	if prev.ID == -1 {
		simrt.SetCurrent(nil)
	} else {
		simrt.SetCurrent(prev)
	}
	res.Ticks = t.Ticks
	MergeTaskStats(t)
	return res
}

func setLimit(pd *decoder.PathDecoder, limit uint) bool {
	v := reflect.ValueOf(pd).Elem().FieldByName("maxCandidates")
	if !v.IsValid() || v.Kind() != reflect.Uint {
		return false
	}
	reflect.NewAt(v.Type(), unsafe.Pointer(v.UnsafeAddr())).Elem().SetUint(uint64(limit))
	return true
}

// ExecInTask runs q assuming the simulator task is already installed (used by
// the concurrent scheduler, where the task's goroutine is the caller).
func (se *Session) ExecInTask(q Query) (res *Result) {
	res = &Result{Q: q}
	s := se.S
	defer func() {
		if r := recover(); r != nil {
			if _, ok := r.(simrt.BudgetExceeded); ok {
				res.Budget = true
				return
			}
			res.Panic = panicInfo(r, debug.Stack())
		}
	}()
	if q.Path < 0 || q.Path >= len(s.Paths) {
		res.Err = fmt.Errorf("harness: no such path %d", q.Path)
		return
	}
	p := s.Paths[q.Path]
	ctx := context.Background()
	if q.CancelAfter > 0 {
		ctx = &cancelCtx{Context: ctx, left: q.CancelAfter, done: make(chan struct{}), fired: func() { s.Stats.fire("request_cancelled") }}
	}
	d := se.D

	var pos hcl.Pos
	if Positional(q.Kind) {
		var text []byte
		if f := p.File(q.File); f != nil {
			text = f.Text
		}
		pos = PosAt(text, q.Off)
	}

	needPD := true
	switch q.Kind {
	case "symbols_ws", "goto_def", "find_refs", "lenses":
		needPD = false
	}
	var pd *decoder.PathDecoder
	if needPD {
		var err error
		pd, err = d.Path(p.Path)
		if err != nil {
			// the server would not go on with a decoder it could not build
			res.Err = err
			return
		}
		// (set only when asked for: the handle Path returns is a new one with
		// the default, so a caller need not reset it)
		if q.Prefill {
			pd.PrefillRequiredFields = true
			s.Stats.fire("prefill")
		}
		if q.Limit != 0 {
			if setLimit(pd, q.Limit) {
				s.Stats.fire("limit_knob")
			}
		}
	}

	switch q.Kind {
	case "completion":
		res.Val, res.Err = pd.CompletionAtPos(ctx, q.File, pos)
	case "hover":
		res.Val, res.Err = pd.HoverAtPos(ctx, q.File, pos)
	case "signature":
		res.Val, res.Err = pd.SignatureAtPos(q.File, pos)
	case "tokens":
		res.Val, res.Err = pd.SemanticTokensInFile(ctx, q.File)
	case "symbols_file":
		res.Val, res.Err = pd.SymbolsInFile(q.File)
	case "symbols_ws":
		res.Val, res.Err = d.Symbols(ctx, q.Arg)
	case "links":
		res.Val, res.Err = pd.LinksInFile(q.File)
	case "validate":
		res.Val, res.Err = pd.Validate(ctx)
	case "validate_file":
		res.Val, res.Err = pd.ValidateFile(ctx, q.File)
	case "targets":
		res.Val, res.Err = pd.CollectReferenceTargets()
	case "origins":
		res.Val, res.Err = pd.CollectReferenceOrigins()
	case "writeonly":
		res.Val, res.Err = pd.CollectWriteOnlyAttributes()
	case "goto_def":
		res.Val, res.Err = d.ReferenceTargetsForOriginAtPos(p.Path, q.File, pos)
	case "find_refs":
		res.Val = d.ReferenceOriginsTargetingPos(p.Path, q.File, pos)
	case "lenses":
		res.Val, res.Err = d.CodeLensesForFile(ctx, p.Path, q.File)
	case "copy_schema":
		res.Val = copyAll(p.Schema, p.Funcs)
	default:
		res.Err = fmt.Errorf("harness: unknown query kind %q", q.Kind)
	}
	return
}

// copyAll calls Copy() on every schema value reachable from the path's schema
// (C01 lists schema.*.Copy among the entry points) and returns how many copies
// were made.
func copyAll(bs *schema.BodySchema, funcs map[string]schema.FunctionSignature) int {
	n := 0
	var body func(b *schema.BodySchema)
	var cons func(c schema.Constraint)
	attr := func(a *schema.AttributeSchema) {
		if a == nil {
			return
		}
		_ = a.Copy()
		n++
		if a.Address != nil {
			_ = a.Address.Copy()
		}
		if a.OriginForTarget != nil {
			_ = a.OriginForTarget.Copy()
		}
		if a.Constraint != nil {
			cons(a.Constraint)
		}
	}
	cons = func(c schema.Constraint) {
		_ = c.Copy()
		n++
		switch x := c.(type) {
		case schema.List:
			if x.Elem != nil {
				cons(x.Elem)
			}
		case schema.Set:
			if x.Elem != nil {
				cons(x.Elem)
			}
		case schema.Map:
			if x.Elem != nil {
				cons(x.Elem)
			}
		case schema.Tuple:
			for _, e := range x.Elems {
				cons(e)
			}
		case schema.OneOf:
			for _, e := range x {
				cons(e)
			}
		case schema.Object:
			names := make([]string, 0, len(x.Attributes))
			for k := range x.Attributes { // maporder:ok (sorted below)
				names = append(names, k)
			}
			sort.Strings(names)
			for _, k := range names {
				attr(x.Attributes[k])
			}
		}
	}
	body = func(b *schema.BodySchema) {
		if b == nil {
			return
		}
		_ = b.Copy()
		n++
		for _, t := range b.TargetableAs {
			_ = t.Copy()
			n++
		}
		attr(b.AnyAttribute)
		for _, k := range b.AttributeNames() {
			attr(b.Attributes[k])
		}
		for _, k := range b.BlockTypes() {
			bl := b.Blocks[k]
			_ = bl.Copy()
			n++
			for _, l := range bl.Labels {
				_ = l.Copy()
			}
			if bl.Address != nil {
				_ = bl.Address.Copy()
			}
			body(bl.Body)
			keys := make([]string, 0, len(bl.DependentBody))
			for k := range bl.DependentBody { // maporder:ok (sorted below)
				keys = append(keys, string(k))
			}
			sort.Strings(keys)
			for _, k := range keys {
				body(bl.DependentBody[schema.SchemaKey(k)])
			}
		}
	}
	body(bs)
	names := make([]string, 0, len(funcs))
	for k := range funcs { // maporder:ok (sorted below)
		names = append(names, k)
	}
	sort.Strings(names)
	for _, k := range names {
		f := funcs[k]
		_ = f.Copy()
		n++
	}
	return n
}

// ---------------------------------------------------------------------------
// canonical form

func errString(err error) string {
	if err == nil {
		return ""
	}
	return fmt.Sprintf("%T:%s", err, err.Error())
}

// Canon is the canonical text of the result; element order is kept for
// ordered results, diagnostics are sorted (unordered collection).
func (r *Result) Canon() string {
	if !r.hasC {
		r.canon = r.CanonWith(nil)
		r.hasC = true
	}
	return r.canon
}

func (r *Result) CanonWith(posMap func(file string, p hcl.Pos) hcl.Pos) string {
	return r.CanonOpts(deep.Options{PosMap: posMap}, false)
}

// CanonOpts: canonical text under walker options; errTypeOnly prints only the
// dynamic type of an error (messages embed positions).
func (r *Result) CanonOpts(o deep.Options, errTypeOnly bool) string {
	var b strings.Builder
	if r.Budget {
		return "BUDGET"
	}
	if r.Panic != nil {
		return "PANIC:" + r.Panic.Class + "@" + r.Panic.Func
	}
	switch v := r.Val.(type) {
	case hcl.Diagnostics:
		b.WriteString(canonDiags(v, o))
	case lang.DiagnosticsMap:
		names := make([]string, 0, len(v))
		for k := range v { // maporder:ok (sorted below)
			names = append(names, k)
		}
		sort.Strings(names)
		for _, k := range names {
			b.WriteString(k + ":" + canonDiags(v[k], o) + ";")
		}
	default:
		if r.Val != nil {
			b.WriteString(deep.Dump(r.Val, o))
		} else {
			b.WriteString("nil")
		}
	}
	if r.Err != nil {
		if errTypeOnly {
			b.WriteString(fmt.Sprintf(" ERR=%T", r.Err))
		} else {
			b.WriteString(" ERR=" + errString(r.Err))
		}
	}
	return b.String()
}

func canonDiags(ds hcl.Diagnostics, o deep.Options) string {
	items := make([]string, len(ds))
	for i, d := range ds {
		items[i] = deep.Dump(d, o)
	}
	sort.Strings(items)
	return "[" + strings.Join(items, " ") + "]"
}

// Empty reports whether the result carries no information (error, nil, or an
// empty list) - used to count non-trivial evaluations.
func (r *Result) Empty() bool {
	if r.Panic != nil || r.Budget {
		return false
	}
	if r.Val == nil {
		return true
	}
	v := reflect.ValueOf(r.Val)
	switch v.Kind() {
	case reflect.Slice, reflect.Map:
		return v.Len() == 0
	case reflect.Ptr, reflect.Interface:
		return v.IsNil()
	case reflect.Struct:
		if c, ok := r.Val.(lang.Candidates); ok {
			return len(c.List) == 0
		}
	}
	return false
}

// ---------------------------------------------------------------------------
// aggregated simulator statistics (per process)

type SimStats struct {
	Tasks        int64
	Ticks        int64
	MapRanges    int64
	NonCanonical int64
	SiteSeen     [simrt.MaxSites / 64]uint64
	SiteNonCanon [simrt.MaxSites / 64]uint64
	PolicyUse    [6]int64
}

var Sim SimStats

//go:norace
func MergeTaskStats(t *simrt.Task) {
	Sim.Tasks++
	Sim.Ticks += t.Ticks
	Sim.MapRanges += t.MapRanges
	Sim.NonCanonical += t.NonCanonical
	Sim.PolicyUse[t.Policy]++
	for i := range t.SiteSeen {
		Sim.SiteSeen[i] |= t.SiteSeen[i]
		Sim.SiteNonCanon[i] |= t.SiteNonCanon[i]
	}
}
