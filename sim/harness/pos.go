package harness

import (
	"bytes"

	"github.com/apparentlymart/go-textseg/v15/textseg"
	"github.com/hashicorp/hcl/v2"
)

// PosAt computes the hcl.Pos of byte offset off in text independently of the
// HCL scanner: line = 1 + number of '\n' before off; column = 1 + number of
// grapheme clusters between the line start and off.
func PosAt(text []byte, off int) hcl.Pos {
	if off < 0 {
		off = 0
	}
	if off > len(text) {
		off = len(text)
	}
	line := 1 + bytes.Count(text[:off], []byte{'\n'})
	ls := bytes.LastIndexByte(text[:off], '\n') + 1
	col := 1
	rest := text[ls:off]
	for len(rest) > 0 {
		adv, _, _ := textseg.ScanGraphemeClusters(rest, true)
		if adv <= 0 {
			break
		}
		rest = rest[adv:]
		col++
	}
	return hcl.Pos{Line: line, Column: col, Byte: off}
}

// OnBoundary reports whether off lies on a grapheme-cluster boundary of its line.
func OnBoundary(text []byte, off int) bool {
	if off <= 0 || off >= len(text) {
		return true
	}
	ls := bytes.LastIndexByte(text[:off], '\n') + 1
	le := bytes.IndexByte(text[off:], '\n')
	if le < 0 {
		le = len(text)
	} else {
		le += off
	}
	rest := text[ls:le]
	p := ls
	for len(rest) > 0 && p < off {
		adv, _, _ := textseg.ScanGraphemeClusters(rest, true)
		if adv <= 0 {
			break
		}
		rest = rest[adv:]
		p += adv
	}
	return p == off
}
