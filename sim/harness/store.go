// Package harness is the stub language server hosting the real hcl-lang code:
// a store of buffers, parsed files, schema versions and collected reference
// targets/origins; background jobs whose start and finish the scenario
// decides (staleness); a PathReader that can be made to fail; and the
// execution of queries under a simulator task (map-order policy, tick budget).
package harness

import (
	"context"
	"fmt"
	"runtime"
	"sort"
	"strconv"
	"strings"
	"sync"
	"time"

	"github.com/hashicorp/hcl-lang/decoder"
	"github.com/hashicorp/hcl-lang/lang"
	"github.com/hashicorp/hcl-lang/reference"
	"github.com/hashicorp/hcl-lang/schema"
	"github.com/hashicorp/hcl-lang/validator"
	"github.com/hashicorp/hcl/v2"
	"github.com/hashicorp/hcl/v2/hclsyntax"
	"github.com/hashicorp/hcl/v2/json"
	"github.com/zclconf/go-cty/cty"

	"lssim/world"
)

type FileState struct {
	Name     string
	Spec     *world.FileSpec
	Rendered *world.Rendered // nil once the buffer no longer equals the rendering
	Full     *world.Rendered // the complete rendering (edit histories are prefixes of it)
	Text     []byte
	File     *hcl.File
	ParseOK  bool // the parser reported no error for the current text
	Version  int
}

type PathState struct {
	Index      int
	Spec       *world.PathSpec
	Path       lang.Path
	Schema     *schema.BodySchema
	SchemaVer  int
	Files      []*FileState // sorted by name
	Funcs      map[string]schema.FunctionSignature
	Validators []validator.Validator
	Targets    reference.Targets
	TargetsAt  int // Epoch the targets were collected from (-1 = never)
	Origins    reference.Origins
	OriginsAt  int
	// OriginsOrder != 0: the published origin list is a permutation of the collected one
	OriginsOrder uint64
	// Builtins: range-less targets the server adds itself
	Builtins reference.Targets
	Epoch      int // bumped by every edit / schema swap in this path
	ctx        *decoder.PathContext
}

type pendingJob struct {
	kind  string
	path  int
	epoch int
	ctx   *decoder.PathContext
}

// Faults is the currently active fault set (all off by default).
type Faults struct {
	ReaderError map[int]bool // PathContext(p) fails
	PathVanish  map[int]bool // listed by Paths() but PathContext fails -> same as ReaderError; Unlisted: not listed
	Unlisted    map[int]bool
	PathsOrder  uint64 // != 0: permutation key for Paths()
	HookMode    string // override for all hooks: "" | error | partial | empty | overflow
	LensError   bool
}

// FaultKinds enumerates everything the simulator can inject; Stats counts how
// often each actually took effect (fired), not how often it was configured.
var FaultKinds = []string{
	"reader_error", "path_unlisted", "paths_order", "stale_targets", "stale_origins", "job_dropped",
	"schema_swap", "hook_error", "hook_partial", "hook_empty", "hook_overflow", "lens_error",
	"limit_knob", "prefill", "preempt", "hook_call", "origins_order", "hook_foreign_goroutine", "request_cancelled",
}

type Stats struct {
	Fired [19]int64
}

// fire is norace: concurrent tasks share the store, and the simulator's own
// counters must not show up in the race oracle.
//
//go:norace
func (s *Stats) fire(k string) {
	for i, n := range FaultKinds {
		if n == k {
			s.Fired[i]++
			return
		}
	}
}

func (s *Stats) Fire(k string) { s.fire(k) }

type Store struct {
	World   *world.World
	Paths   []*PathState
	Faults  Faults
	DecCtx  decoder.DecoderContext
	Stats   Stats
	pending []*pendingJob
	Limit     uint // limit knob communicated to overflow hooks (0 = 100)
	hooks     *hookSeq
	// InitialInputs: SnapshotInputs() as of construction / the last schema swap
	// (only kept when KeepInitialInputs was set before NewStore)
	InitialInputs string
}

// KeepInitialInputs makes NewStore record SnapshotInputs (C04/C05 only: it costs a deep dump).
var KeepInitialInputs bool

func NewStore(w *world.World) *Store {
	s := &Store{World: w}
	for i, ps := range w.Paths {
		p := &PathState{Index: i, Spec: ps, Path: lang.Path{Path: ps.Dir, LanguageID: ps.Lang}, TargetsAt: -1, OriginsAt: -1}
		p.Schema = world.CompileBody(ps.Schema)
		for _, b := range w.Builtins {
			p.Builtins = append(p.Builtins, reference.Target{Addr: world.ParseAddr(b.Addr), ScopeId: lang.ScopeId(b.Scope), Type: world.ParseType(b.Type), Name: "built-in"})
		}
		p.Funcs = world.CompileFuncs(ps.Funcs)
		p.Validators = world.CompileValidators(ps.Validators)
		for _, fs := range ps.Files {
			r := world.Render(fs)
			f := &FileState{Name: fs.Name, Spec: fs, Rendered: r, Full: r}
			p.Files = append(p.Files, f)
			f.setText(r.Text)
		}
		sort.SliceStable(p.Files, func(a, b int) bool { return p.Files[a].Name < p.Files[b].Name })
		s.Paths = append(s.Paths, p)
		p.publish()
	}
	s.DecCtx = decoder.NewDecoderContext()
	s.DecCtx.UtmSource = w.UtmSource
	s.DecCtx.UtmMedium = w.UtmMedium
	s.DecCtx.UseUtmContent = w.UseUtmContent
	for _, h := range w.Hooks {
		h := h
		s.DecCtx.CompletionHooks[h.Name] = func(ctx context.Context, value cty.Value) ([]decoder.Candidate, error) {
			return s.runHook(ctx, h, value)
		}
	}
	for i, l := range w.Lenses {
		i, l := i, l
		s.DecCtx.CodeLenses = append(s.DecCtx.CodeLenses, func(ctx context.Context, path lang.Path, file string) ([]lang.CodeLens, error) {
			if l == "error" || s.Faults.LensError && i == 0 {
				if s.Faults.LensError {
					s.Stats.fire("lens_error")
				}
				return nil, fmt.Errorf("lens %d failed", i)
			}
			if l == "empty" {
				return nil, nil
			}
			return []lang.CodeLens{{Range: hcl.Range{Filename: file, Start: hcl.InitialPos, End: hcl.InitialPos}, Command: lang.Command{Title: fmt.Sprintf("lens %d", i), ID: "x"}}}, nil
		})
	}
	if KeepInitialInputs {
		s.InitialInputs = s.SnapshotInputs()
	}
	return s
}

// hookSeq sequences hook calls the library makes from goroutines of its own.
// The library as it stands calls hooks one after another on the caller's
// goroutine and none of this takes effect. If it ever runs them concurrently,
// their finishing order is a scheduling decision the simulator must own: the
// query's order policy decides which hook is held back until the other one has
// returned (bounded wait, so a hook that is never called cannot stall a run).
type hookSeq struct {
	mu      sync.Mutex
	caller  int64
	reverse bool
	done    map[string]chan struct{}
	foreign int
}

func (hs *hookSeq) doneCh(name string) chan struct{} {
	hs.mu.Lock()
	defer hs.mu.Unlock()
	ch, ok := hs.done[name]
	if !ok {
		ch = make(chan struct{})
		hs.done[name] = ch
	}
	return ch
}

// goid returns the id of the calling goroutine (parsed from its stack header).
func goid() int64 {
	var buf [64]byte
	n := runtime.Stack(buf[:], false)
	f := strings.Fields(string(buf[:n]))
	if len(f) < 2 {
		return -1
	}
	id, err := strconv.ParseInt(f[1], 10, 64)
	if err != nil {
		return -1
	}
	return id
}

// BeginQuery / EndQuery bracket one solo query (not used inside concurrent rounds).
func (s *Store) BeginQuery(policy string) {
	s.hooks = &hookSeq{caller: goid(), reverse: policy == "desc" || policy == "pinlast", done: map[string]chan struct{}{}}
}

func (s *Store) EndQuery() {
	if hs := s.hooks; hs != nil && hs.foreign > 0 {
		for i := 0; i < hs.foreign; i++ {
			s.Stats.fire("hook_foreign_goroutine")
		}
	}
	s.hooks = nil
}

func (s *Store) runHook(ctx context.Context, h world.HookSpec, value cty.Value) ([]decoder.Candidate, error) {
	if hs := s.hooks; hs != nil && goid() != hs.caller {
		hs.mu.Lock()
		hs.foreign++
		hs.mu.Unlock()
		// two stub hooks exist (h1, h2): hold one back until the other returned
		first, second := "h1", "h2"
		if hs.reverse {
			first, second = "h2", "h1"
		}
		if h.Name == second {
			select {
			case <-hs.doneCh(first):
			case <-time.After(150 * time.Millisecond):
			}
		}
		defer func() {
			ch := hs.doneCh(h.Name)
			hs.mu.Lock()
			select {
			case <-ch:
			default:
				close(ch)
			}
			hs.mu.Unlock()
		}()
		return s.runHookBody(ctx, h, value, true)
	}
	return s.runHookBody(ctx, h, value, false)
}

func (s *Store) runHookBody(ctx context.Context, h world.HookSpec, value cty.Value, foreign bool) ([]decoder.Candidate, error) {
	if !foreign {
		s.Stats.fire("hook_call")
	}
	mode := h.Behaviour
	if s.Faults.HookMode != "" {
		mode = s.Faults.HookMode
		if !foreign {
			s.Stats.fire("hook_" + mode)
		}
	}
	prefix := ""
	if value.Type() == cty.String && !value.IsNull() && value.IsKnown() {
		prefix = value.AsString()
	}
	mk := func(n int) []decoder.Candidate {
		out := make([]decoder.Candidate, 0, n)
		for i := 0; i < n; i++ {
			v := fmt.Sprintf("%shk%s%03d", prefix, h.Name, i)
			out = append(out, decoder.ExpressionCompletionCandidate(decoder.ExpressionCandidate{Value: cty.StringVal(v), Detail: "hook"}))
		}
		return out
	}
	n := h.N
	if n == 0 {
		n = 3
	}
	switch mode {
	case "racy":
		// self-test of the race oracle only: a deliberately unsynchronised write
		racyCell++
		return mk(1), nil
	case "error":
		return nil, fmt.Errorf("hook %s: registry unreachable", h.Name)
	case "partial":
		return mk(1), fmt.Errorf("hook %s: partial", h.Name)
	case "empty":
		return nil, nil
	case "overflow":
		lim := 100
		if mc, ok := decoder.MaxCandidatesFromContext(ctx); ok {
			lim = int(mc)
		}
		return mk(lim + 7), nil
	}
	return mk(n), nil
}

var racyCell int

func parse(name string, text []byte) (*hcl.File, bool) {
	var f *hcl.File
	var diags hcl.Diagnostics
	if strings.HasSuffix(name, ".json") {
		f, diags = json.Parse(text, name)
	} else {
		f, diags = hclsyntax.ParseConfig(text, name, hcl.InitialPos)
	}
	return f, !diags.HasErrors()
}

func (f *FileState) setText(t []byte) {
	f.Text = append([]byte(nil), t...)
	f.File, f.ParseOK = parse(f.Name, f.Text)
	f.Version++
	if f.Full != nil && !f.Full.Unreliable && string(f.Full.Text) == string(t) {
		f.Rendered = f.Full
	} else {
		f.Rendered = nil
	}
}

// publish builds a fresh immutable PathContext snapshot.
func (p *PathState) publish() {
	files := make(map[string]*hcl.File, len(p.Files))
	for _, f := range p.Files {
		if f.File != nil {
			files[f.Name] = f.File
		}
	}
	origins := p.Origins
	if k := p.OriginsOrder; k != 0 && len(origins) > 1 {
		// the server stores what several jobs collected in whatever order they
		// finished: a seeded permutation of the collected list
		origins = append(reference.Origins(nil), origins...)
		st := k
		for i := len(origins) - 1; i > 0; i-- {
			st = st*6364136223846793005 + 1442695040888963407
			j := int((st >> 33) % uint64(i+1))
			origins[i], origins[j] = origins[j], origins[i]
		}
	}
	targets := p.Targets
	if len(p.Builtins) > 0 {
		// what the server knows without any declaration: appended to whatever
		// was collected, as terraform-ls does for its built-in references
		targets = append(append(reference.Targets(nil), targets...), p.Builtins...)
	}
	p.ctx = &decoder.PathContext{
		Schema:           p.Schema,
		ReferenceOrigins: origins,
		ReferenceTargets: targets,
		Files:            files,
		Functions:        p.Funcs,
		Validators:       p.Validators,
	}
}

func (p *PathState) Ctx() *decoder.PathContext { return p.ctx }

func (p *PathState) File(name string) *FileState {
	for _, f := range p.Files {
		if f.Name == name {
			return f
		}
	}
	return nil
}

// SetText replaces a buffer (an edit event) and republishes.
func (s *Store) SetText(path int, file string, text []byte) {
	p := s.Paths[path]
	f := p.File(file)
	if f == nil {
		f = &FileState{Name: file}
		p.Files = append(p.Files, f)
		sort.SliceStable(p.Files, func(a, b int) bool { return p.Files[a].Name < p.Files[b].Name })
	}
	f.setText(text)
	p.Epoch++
	p.publish()
}

func (s *Store) SwapSchema(path int) bool {
	p := s.Paths[path]
	if p.Spec.SchemaV2 == nil {
		return false
	}
	if p.SchemaVer%2 == 0 {
		p.Schema = world.CompileBody(p.Spec.SchemaV2)
	} else {
		p.Schema = world.CompileBody(p.Spec.Schema)
	}
	p.SchemaVer++
	p.Epoch++
	p.publish()
	s.Stats.fire("schema_swap")
	if s.InitialInputs != "" {
		s.InitialInputs = s.SnapshotInputs()
	}
	return true
}

// Quiescent: every path's targets and origins were collected from its current
// buffers and no reader fault is active.
// SetsCurrent: every path's collected targets and origins stem from its
// current text (reader faults may be active).
func (s *Store) SetsCurrent() bool {
	for _, p := range s.Paths {
		if p.TargetsAt != p.Epoch || p.OriginsAt != p.Epoch {
			return false
		}
	}
	return true
}

func (s *Store) Quiescent() bool {
	if len(s.Faults.ReaderError) > 0 || len(s.Faults.Unlisted) > 0 || len(s.Faults.PathVanish) > 0 {
		return false
	}
	for _, p := range s.Paths {
		if p.TargetsAt != p.Epoch || p.OriginsAt != p.Epoch {
			return false
		}
	}
	return true
}

// ---------------------------------------------------------------------------
// reader

type Reader struct {
	s *Store
	// pinned, if non-nil, serves these contexts instead of the current ones (jobs)
	pinned map[int]*decoder.PathContext
}

func (s *Store) Reader() *Reader { return &Reader{s: s} }

func (r *Reader) Paths(ctx context.Context) []lang.Path {
	s := r.s
	var idx []int
	for i := range s.Paths {
		if s.Faults.Unlisted[i] {
			s.Stats.fire("path_unlisted")
			continue
		}
		idx = append(idx, i)
	}
	if k := s.Faults.PathsOrder; k != 0 && len(idx) > 1 {
		// deterministic permutation
		st := k
		for i := len(idx) - 1; i > 0; i-- {
			st = st*6364136223846793005 + 1442695040888963407
			j := int((st >> 33) % uint64(i+1))
			idx[i], idx[j] = idx[j], idx[i]
		}
		s.Stats.fire("paths_order")
	}
	out := make([]lang.Path, len(idx))
	for i, k := range idx {
		out[i] = s.Paths[k].Path
	}
	return out
}

func (r *Reader) PathContext(path lang.Path) (*decoder.PathContext, error) {
	s := r.s
	for i, p := range s.Paths {
		if p.Path.Equals(path) {
			if s.Faults.ReaderError[i] || s.Faults.PathVanish[i] {
				s.Stats.fire("reader_error")
				return nil, fmt.Errorf("path %s: not indexed", path.Path)
			}
			if r.pinned != nil {
				if c, ok := r.pinned[i]; ok {
					return c, nil
				}
			}
			return p.ctx, nil
		}
	}
	return nil, fmt.Errorf("path %s: unknown", path.Path)
}

// ---------------------------------------------------------------------------
// jobs

// JobStart captures the snapshot a collection job will read.
func (s *Store) JobStart(kind string, path int) {
	p := s.Paths[path]
	for i, j := range s.pending {
		if j.kind == kind && j.path == path {
			s.pending = append(s.pending[:i], s.pending[i+1:]...)
			break
		}
	}
	s.pending = append(s.pending, &pendingJob{kind: kind, path: path, epoch: p.Epoch, ctx: p.ctx})
}

// JobFinish runs the job on its captured snapshot and publishes the result.
// Returns false if no such job is pending.
func (s *Store) JobFinish(kind string, path int) bool {
	for i, j := range s.pending {
		if j.kind == kind && j.path == path {
			s.pending = append(s.pending[:i], s.pending[i+1:]...)
			s.runJob(j)
			return true
		}
	}
	return false
}

func (s *Store) JobDrop(kind string, path int) bool {
	for i, j := range s.pending {
		if j.kind == kind && j.path == path {
			s.pending = append(s.pending[:i], s.pending[i+1:]...)
			s.Stats.fire("job_dropped")
			return true
		}
	}
	return false
}

func (s *Store) runJob(j *pendingJob) {
	p := s.Paths[j.path]
	r := &Reader{s: s, pinned: map[int]*decoder.PathContext{j.path: j.ctx}}
	d := decoder.NewDecoder(r)
	d.SetContext(s.DecCtx)
	saved := s.Faults
	s.Faults = Faults{} // the indexer reads its own snapshot
	pd, err := d.Path(p.Path)
	s.Faults = saved
	if err != nil {
		return
	}
	func() {
		defer func() { recover() }() // a crashing job publishes nothing (C01 reports the crash itself)
		switch j.kind {
		case "targets":
			t, err := pd.CollectReferenceTargets()
			if err == nil {
				p.Targets = t
				if j.epoch != p.Epoch {
					s.Stats.fire("stale_targets")
				}
				p.TargetsAt = j.epoch
			}
		case "origins":
			o, err := pd.CollectReferenceOrigins()
			if err == nil {
				p.Origins = o
				if j.epoch != p.Epoch {
					s.Stats.fire("stale_origins")
				}
				p.OriginsAt = j.epoch
			}
		}
	}()
	p.publish()
}

// Quiesce clears all faults, drops pending jobs and re-collects everything.
func (s *Store) Quiesce() {
	s.Faults = Faults{}
	for _, p := range s.Paths {
		p.OriginsOrder = 0
	}
	s.pending = nil
	for i := range s.Paths {
		s.JobStart("targets", i)
		s.JobFinish("targets", i)
		s.JobStart("origins", i)
		s.JobFinish("origins", i)
	}
	// a crashed job leaves TargetsAt behind: the server has nothing for the
	// current text (keeping the older set would hand oracles ranges of a text
	// that no longer exists)
	for _, p := range s.Paths {
		if p.TargetsAt != p.Epoch {
			p.Targets = nil
		}
		if p.OriginsAt != p.Epoch {
			p.Origins = nil
		}
		p.TargetsAt, p.OriginsAt = p.Epoch, p.Epoch
		p.publish()
	}
}

func (s *Store) SetFault(kind string, arg int64, on bool) {
	setm := func(m *map[int]bool) {
		if *m == nil {
			*m = map[int]bool{}
		}
		if on {
			(*m)[int(arg)] = true
		} else {
			delete(*m, int(arg))
		}
	}
	switch kind {
	case "reader_error":
		setm(&s.Faults.ReaderError)
	case "path_vanish":
		setm(&s.Faults.PathVanish)
	case "path_unlisted":
		setm(&s.Faults.Unlisted)
	case "paths_order":
		if on {
			s.Faults.PathsOrder = uint64(arg) | 1
		} else {
			s.Faults.PathsOrder = 0
		}
	case "hook_error", "hook_partial", "hook_empty", "hook_overflow":
		if on {
			s.Faults.HookMode = strings.TrimPrefix(kind, "hook_")
		} else {
			s.Faults.HookMode = ""
		}
	case "lens_error":
		s.Faults.LensError = on
	case "origins_order":
		for _, p := range s.Paths {
			if on {
				p.OriginsOrder = uint64(arg) | 1
				if len(p.Origins) > 1 {
					s.Stats.fire("origins_order")
				}
			} else {
				p.OriginsOrder = 0
			}
			p.publish()
		}
	}
}
