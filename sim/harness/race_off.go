//go:build !race

package harness

const RaceBuild = false

func raceDisable() {}
func raceEnable()  {}
