package harness

import (
	"crypto/sha256"
	"encoding/hex"
	"fmt"
	"hash"
	"os"
	"sort"
	"strings"
	"unicode/utf8"

	"github.com/hashicorp/hcl/v2"
	"github.com/hashicorp/hcl/v2/hclsyntax"
)

// Oracle decides one property. Check is called at every "check" event, Round
// at every "round" event.
type Oracle interface {
	Property() string
	Check(x *Exec, ev *Event)
	Round(x *Exec, ev *Event)
}

type Coverage struct {
	Evaluations int64            // query executions
	ByKind      map[string]int64 // per query kind
	NonTrivial  map[[8]byte]bool // distinct (kind, canonical non-empty result)
	States      map[[8]byte]bool // distinct published states checked
	Checks      int64
	Rounds      int64
	Switches    int64
	Interleave  map[[8]byte]bool // distinct scheduling-decision sequences
	Probes      map[string]int64 // reach probes
	Samples     []string
	Events      int64
}

func NewCoverage() *Coverage {
	return &Coverage{ByKind: map[string]int64{}, NonTrivial: map[[8]byte]bool{}, States: map[[8]byte]bool{}, Interleave: map[[8]byte]bool{}, Probes: map[string]int64{}}
}

func (c *Coverage) Probe(name string) { c.Probes[name]++ }

func h8(s string) [8]byte {
	sum := sha256.Sum256([]byte(s))
	var out [8]byte
	copy(out[:], sum[:8])
	return out
}

var dumpResults = os.Getenv("LSSIM_DUMP") != ""

// Exec executes one scenario.
type Exec struct {
	Sc   *Scenario
	S    *Store
	O    Oracle
	Cov  *Coverage
	Viol []*Violation
	// EvIdx is the index of the event being executed
	EvIdx int
	// log: running hash over (event, query, result) for the determinism self-test
	logH    hash.Hash
	LogText *strings.Builder // non-nil: keep a textual event log
	// MaxViol stops the scenario after this many violations (0 = 1)
	MaxViol int
	Sess    *Session // long-lived session (history dimension)
}

func NewExec(sc *Scenario, o Oracle, cov *Coverage) *Exec {
	return &Exec{Sc: sc, O: o, Cov: cov, logH: sha256.New()}
}

func (x *Exec) logf(format string, a ...any) {
	s := fmt.Sprintf(format, a...)
	x.logH.Write([]byte(s))
	x.logH.Write([]byte{'\n'})
	if x.LogText != nil {
		x.LogText.WriteString(s)
		x.LogText.WriteByte('\n')
	}
}

func (x *Exec) LogHash() string { return hex.EncodeToString(x.logH.Sum(nil))[:16] }

func (x *Exec) done() bool {
	m := x.MaxViol
	if m == 0 {
		m = 1
	}
	return len(x.Viol) >= m
}

// Report records a violation.
func (x *Exec) Report(clause, site, shape, detail string, q *Query) {
	v := &Violation{Property: x.O.Property(), Clause: clause, Site: site, Shape: shape, Detail: detail, Event: x.EvIdx, Query: q}
	v.Fingerprint = v.FP()
	x.Viol = append(x.Viol, v)
	x.logf("VIOLATION %s", v.Fingerprint)
}

// Run executes q on a fresh decoder, counting and logging it.
func (x *Exec) Run(q Query) *Result {
	return x.RunIn(nil, q)
}

// RunIn executes q in session se (nil = fresh decoder).
func (x *Exec) RunIn(se *Session, q Query) *Result {
	if se == nil {
		se = x.S.NewSession()
	}
	r := se.Exec(q)
	x.count(r)
	return r
}

func (x *Exec) count(r *Result) {
	x.Cov.Evaluations++
	x.Cov.ByKind[r.Q.Kind]++
	c := r.Canon()
	if !r.Empty() && r.Err == nil {
		x.Cov.NonTrivial[h8(r.Q.Kind+"\x00"+c)] = true
	}
	if x.LogText != nil && dumpResults {
		x.LogText.WriteString("    = " + c + "\n")
	}
	x.logf("q ev=%d %s p=%d f=%s off=%d ord=%s/%d pre=%v lim=%d -> %x", x.EvIdx, r.Q.Kind, r.Q.Path, r.Q.File, r.Q.Off, r.Q.Order.P, r.Q.Order.Key, r.Q.Prefill, r.Q.Limit, h8(c))
}

// Execute runs all events.
type nopOracle struct{ prop string }

func (n nopOracle) Property() string  { return n.prop }
func (nopOracle) Check(*Exec, *Event) {}
func (nopOracle) Round(*Exec, *Event) {}

// Twin builds a second store in the state this one is in: the same world with
// the scenario's events before the current one applied (checks and rounds do
// nothing). It shares nothing with x.S but the library's package-level state:
// its own schema objects, decoder context and hook registry. C05 computes the
// "same query run alone" answers there, so that whatever a request does to
// shared state happens inside the concurrent round and not before it.
func (x *Exec) Twin() *Store {
	tsc := *x.Sc
	tsc.Events = x.Sc.Events[:x.EvIdx]
	tx := NewExec(&tsc, nopOracle{x.Sc.Property}, NewCoverage())
	tx.Execute()
	return tx.S
}

func (x *Exec) Execute() {
	x.S = NewStore(x.Sc.World)
	x.Sess = x.S.NewSession()
	for i, ev := range x.Sc.Events {
		if x.done() {
			return
		}
		x.EvIdx = i
		x.Cov.Events++
		x.apply(ev)
	}
}

func (x *Exec) apply(ev *Event) {
	s := x.S
	switch ev.K {
	case "edit":
		if ev.Path >= len(s.Paths) {
			return
		}
		p := s.Paths[ev.Path]
		f := p.File(ev.File)
		if f == nil {
			return
		}
		var text []byte
		switch ev.Op {
		case "prefix":
			n := ev.N
			if f.Full == nil {
				return
			}
			if n > len(f.Full.Text) {
				n = len(f.Full.Text)
			}
			// an editor buffer is valid UTF-8: never cut inside a character
			for n > 0 && n < len(f.Full.Text) && !utf8.RuneStart(f.Full.Text[n]) {
				n--
			}
			text = f.Full.Text[:n]
		case "full":
			if f.Full == nil {
				return
			}
			text = f.Full.Text
		case "splice":
			off, del := ev.Off, ev.Del
			if off > len(f.Text) {
				off = len(f.Text)
			}
			if off+del > len(f.Text) {
				del = len(f.Text) - off
			}
			for off > 0 && off < len(f.Text) && !utf8.RuneStart(f.Text[off]) {
				off--
				del++
			}
			for off+del < len(f.Text) && !utf8.RuneStart(f.Text[off+del]) {
				del++
			}
			text = append(append(append([]byte(nil), f.Text[:off]...), ev.Ins...), f.Text[off+del:]...)
		case "translate":
			if f.Full == nil || len(f.Full.InsertPoints) == 0 {
				return
			}
			k := ev.BeforeItem
			if k >= len(f.Full.InsertPoints) {
				k = len(f.Full.InsertPoints) - 1
			}
			at := f.Full.InsertPoints[k]
			ins := strings.Join(ev.Lines, "\n") + "\n"
			if at == len(f.Full.Text) && at > 0 && f.Full.Text[at-1] != '\n' {
				ins = "\n" + ins
			}
			text = append(append(append([]byte(nil), f.Full.Text[:at]...), ins...), f.Full.Text[at:]...)
		default:
			return
		}
		s.SetText(ev.Path, ev.File, text)
		x.logf("edit ev=%d p=%d f=%s %s len=%d", x.EvIdx, ev.Path, ev.File, ev.Op, len(text))
	case "job":
		if ev.Path >= len(s.Paths) {
			return
		}
		switch ev.Phase {
		case "start":
			s.JobStart(ev.Kind, ev.Path)
		case "finish":
			s.JobFinish(ev.Kind, ev.Path)
		case "drop":
			s.JobDrop(ev.Kind, ev.Path)
		case "run":
			s.JobStart(ev.Kind, ev.Path)
			s.JobFinish(ev.Kind, ev.Path)
		}
		x.logf("job ev=%d p=%d %s %s", x.EvIdx, ev.Path, ev.Kind, ev.Phase)
	case "fault":
		if ev.Fault == "schema_swap" {
			if ev.Path < len(s.Paths) {
				s.SwapSchema(ev.Path)
			}
		} else {
			s.SetFault(ev.Fault, ev.Arg, ev.On)
		}
		x.logf("fault ev=%d %s %d %v", x.EvIdx, ev.Fault, ev.Arg, ev.On)
	case "quiesce":
		s.Quiesce()
		x.logf("quiesce ev=%d", x.EvIdx)
	case "check":
		x.Cov.Checks++
		x.Cov.States[h8(x.StateKey())] = true
		x.O.Check(x, ev)
	case "round":
		x.Cov.Rounds++
		x.O.Round(x, ev)
	}
}

// StateKey identifies the published state (texts, epochs, faults).
func (x *Exec) StateKey() string {
	var b strings.Builder
	for _, p := range x.S.Paths {
		fmt.Fprintf(&b, "p%d s%d t%d o%d e%d;", p.Index, p.SchemaVer, p.TargetsAt, p.OriginsAt, p.Epoch)
		for _, f := range p.Files {
			fmt.Fprintf(&b, "%s:%x;", f.Name, h8(string(f.Text)))
		}
	}
	fmt.Fprintf(&b, "q=%v", x.S.Quiescent())
	return b.String()
}

// Offsets derives the cursor offsets a check visits in a file.
func (x *Exec) Offsets(f *FileState, c *Check, defStride int) []int {
	if c != nil && c.Offsets != nil {
		var out []int
		for _, o := range c.Offsets {
			if o >= 0 && o <= len(f.Text) {
				out = append(out, o)
			}
		}
		return out
	}
	stride := defStride
	if c != nil && c.Stride > 0 {
		stride = c.Stride
	}
	n := len(f.Text)
	set := map[int]bool{0: true, n: true}
	if stride <= 1 {
		for i := 0; i <= n; i++ {
			set[i] = true
		}
	} else {
		for i := 0; i <= n; i += stride {
			set[i] = true
		}
		if strings.HasSuffix(f.Name, ".json") {
			// no lexer for JSON; stride only
		} else {
			toks, _ := hclsyntax.LexConfig(f.Text, f.Name, hcl.InitialPos)
			for _, t := range toks {
				for _, o := range []int{t.Range.Start.Byte, t.Range.End.Byte} {
					if o >= 0 && o <= n {
						set[o] = true
					}
				}
			}
		}
	}
	out := make([]int, 0, len(set))
	for o := range set { // maporder:ok (sorted below)
		out = append(out, o)
	}
	sort.Ints(out)
	// bound the work per check: an even, key-shifted subsample
	max := 160
	if x.Sc != nil && x.Sc.Tier == "thorough" {
		max = 1200
	}
	if c != nil && c.Max > 0 {
		max = c.Max
	}
	if len(out) > max {
		var key uint64
		if c != nil {
			key = c.Key
		}
		step := float64(len(out)) / float64(max)
		shift := float64(key%1000) / 1000 * step
		sub := make([]int, 0, max)
		for i := 0; i < max; i++ {
			k := int(shift + float64(i)*step)
			if k >= len(out) {
				k = len(out) - 1
			}
			if len(sub) == 0 || sub[len(sub)-1] != out[k] {
				sub = append(sub, out[k])
			}
		}
		out = sub
	}
	return out
}

// Sample keeps up to n sample descriptions in the coverage record.
func (x *Exec) Sample(n int, format string, a ...any) {
	if len(x.Cov.Samples) < n {
		x.Cov.Samples = append(x.Cov.Samples, fmt.Sprintf(format, a...))
	}
}
