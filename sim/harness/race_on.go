//go:build race

package harness

import "runtime"

const RaceBuild = true

func raceDisable() { runtime.RaceDisable() }
func raceEnable()  { runtime.RaceEnable() }
