package harness

import (
	"encoding/json"
	"fmt"
	"os"

	"lssim/world"
)

// Scenario is both the unit of execution and the replay file: the world as a
// model plus the exact list of events. Executing it draws from no PRNG and
// reads no clock.
type Scenario struct {
	V        int          `json:"v"`
	Property string       `json:"property"`
	Tier     string       `json:"tier"`
	Seed     uint64       `json:"seed"`
	Index    int          `json:"index"`
	World    *world.World `json:"world"`
	Events   []*Event     `json:"events"`
	// Prelude lists the indices of generated scenarios (same property, tier and
	// seed) to execute in the same process before this one. Needed only when the
	// library keeps process-global state, so that a result depends on earlier
	// requests; empty otherwise.
	Prelude []int `json:"prelude,omitempty"`
	// Violation is filled in when the scenario is written as a replay file.
	Violation *Violation `json:"violation,omitempty"`
}

// Event kinds:
//
//	edit    - Op: "prefix" (buffer := full rendering[:N]) | "splice" (Off, Del, Ins) | "full" | "translate" (BeforeItem, Lines)
//	job     - Kind: targets|origins, Phase: start|finish|drop
//	fault   - Fault kind, Arg, On
//	quiesce - run every job to completion, clear faults
//	check   - run the property's oracle at the current state (Check params)
//	round   - concurrent round (C05)
type Event struct {
	K    string `json:"k"`
	Path int    `json:"path,omitempty"`
	File string `json:"file,omitempty"`

	Op         string   `json:"op,omitempty"`
	N          int      `json:"n,omitempty"`
	Off        int      `json:"off,omitempty"`
	Del        int      `json:"del,omitempty"`
	Ins        string   `json:"ins,omitempty"`
	BeforeItem int      `json:"before_item,omitempty"`
	Lines      []string `json:"lines,omitempty"`

	Kind  string `json:"kind,omitempty"`
	Phase string `json:"phase,omitempty"`

	Fault string `json:"fault,omitempty"`
	Arg   int64  `json:"arg,omitempty"`
	On    bool   `json:"on,omitempty"`

	Check *Check `json:"check,omitempty"`
	Round *Round `json:"round,omitempty"`
}

// Check parameterises one oracle invocation.
type Check struct {
	// Offsets: explicit cursor offsets; nil = derive from Stride
	Offsets []int `json:"offsets,omitempty"`
	// Stride: 1 = every byte offset; k = every k-th plus token boundaries; 0 = oracle default
	Stride int `json:"stride,omitempty"`
	// Kinds restricts the query kinds (nil = the oracle's default set)
	Kinds []string `json:"kinds,omitempty"`
	// Orders to apply (nil = oracle default)
	Orders  []Order `json:"orders,omitempty"`
	Prefill *bool   `json:"prefill,omitempty"`
	Limit   uint    `json:"limit,omitempty"`
	Key     uint64  `json:"key,omitempty"` // hash key for derived choices
	Max     int     `json:"max,omitempty"` // cap on offsets visited (0 = tier default)
	Args    []string `json:"args,omitempty"`
}

// Round is one concurrent round: Tasks[i] is the query list of task i;
// Switch[k] is the number of ticks the k-th scheduled slice runs before it is
// pre-empted; Pick[k] chooses (mod runnable) which task runs in slice k.
type Round struct {
	Tasks   [][]Query `json:"tasks"`
	Switch  []int     `json:"switch"`
	Pick    []int     `json:"pick"`
	Reverse bool      `json:"reverse,omitempty"`
}

type Violation struct {
	Property    string `json:"property"`
	Clause      string `json:"clause"`
	Site        string `json:"site"`
	Shape       string `json:"shape,omitempty"`
	Detail      string `json:"detail"`
	Event       int    `json:"event"`
	Query       *Query `json:"query,omitempty"`
	Fingerprint string `json:"fingerprint"`
}

func (v *Violation) FP() string {
	return v.Property + "|" + v.Clause + "|" + v.Site + "|" + v.Shape
}

func LoadScenario(path string) (*Scenario, error) {
	b, err := os.ReadFile(path)
	if err != nil {
		return nil, err
	}
	var sc Scenario
	if err := json.Unmarshal(b, &sc); err != nil {
		return nil, fmt.Errorf("%s: %w", path, err)
	}
	return &sc, nil
}

func (sc *Scenario) Save(path string) error {
	b, err := json.MarshalIndent(sc, "", " ")
	if err != nil {
		return err
	}
	return os.WriteFile(path, append(b, '\n'), 0o644)
}

// Clone deep-copies a scenario (through JSON: the scenario is pure data).
func (sc *Scenario) Clone() *Scenario {
	b, err := json.Marshal(sc)
	if err != nil {
		panic(err)
	}
	var out Scenario
	if err := json.Unmarshal(b, &out); err != nil {
		panic(err)
	}
	return &out
}
