package harness

import (
	"time"

	"lssim/world"
)

// RunOnce executes a scenario with a fresh oracle and returns the first violation.
type RunFunc func(sc *Scenario) *Violation

// Minimise shrinks a failing scenario while the violation fingerprint stays
// the same: events (truncate, narrow the failing check, ddmin), then the world
// model (files, items, nested items, expressions, schema elements), then the
// check is narrowed again. Bounded by deadline.
func Minimise(sc *Scenario, run RunFunc, deadline time.Time) (*Scenario, *Violation) {
	best := sc.Clone()
	v := run(best)
	if v == nil {
		return sc, nil
	}
	fp := v.Fingerprint
	try := func(cand *Scenario) bool {
		if time.Now().After(deadline) {
			return false
		}
		// run what would be saved: the candidate after a JSON round trip
		cand = cand.Clone()
		nv := run(cand.Clone())
		if nv != nil && nv.Fingerprint == fp {
			best = cand
			v = nv
			return true
		}
		return false
	}

	// 1. truncate after the failing event
	if v.Event+1 < len(best.Events) {
		c := best.Clone()
		c.Events = c.Events[:v.Event+1]
		try(c)
	}
	narrow := func() {
		// 2. narrow the failing check to the failing query
		if v.Query == nil || v.Event >= len(best.Events) {
			return
		}
		ev := best.Events[v.Event]
		if ev.K != "check" {
			return
		}
		c := best.Clone()
		e := c.Events[v.Event]
		if e.Check == nil {
			e.Check = &Check{}
		}
		e.Path = v.Query.Path
		e.File = v.Query.File
		if Positional(v.Query.Kind) {
			e.Check.Offsets = []int{v.Query.Off}
		} else {
			e.Check.Offsets = []int{0}
		}
		e.Check.Kinds = []string{v.Query.Kind}
		if !try(c) {
			// keep kinds open (the oracle may need companion queries)
			c2 := best.Clone()
			e2 := c2.Events[v.Event]
			if e2.Check == nil {
				e2.Check = &Check{}
			}
			e2.Path = v.Query.Path
			e2.File = v.Query.File
			if Positional(v.Query.Kind) {
				e2.Check.Offsets = []int{v.Query.Off}
				try(c2)
			}
		}
	}
	narrow()

	// 3. ddmin over the events before the failing one
	ddEvents := func() {
		n := 2
		for len(best.Events) > 1 && time.Now().Before(deadline) {
			pre := len(best.Events) - 1
			if pre <= 0 {
				break
			}
			chunk := (pre + n - 1) / n
			reduced := false
			for s := 0; s < pre; s += chunk {
				e := s + chunk
				if e > pre {
					e = pre
				}
				c := best.Clone()
				c.Events = append(append([]*Event(nil), c.Events[:s]...), c.Events[e:]...)
				if try(c) {
					reduced = true
					break
				}
			}
			if !reduced {
				if chunk <= 1 {
					break
				}
				n *= 2
				if n > pre {
					n = pre
				}
			} else if n > 2 {
				n--
			}
		}
	}
	ddEvents()

	// 4. world reduction. Positions move, so widen the failing check to a
	// sweep of the file first.
	widen := func(c *Scenario) {
		if len(c.Events) == 0 {
			return
		}
		e := c.Events[len(c.Events)-1]
		if e.K == "check" && e.Check != nil && e.Check.Offsets != nil {
			e.Check.Offsets = nil
			e.Check.Stride = 1
		}
	}
	{
		c := best.Clone()
		widen(c)
		if !try(c) {
			return best, v
		}
	}
	changed := true
	for changed && time.Now().Before(deadline) {
		changed = false
		// drop files
		for pi := range best.World.Paths {
			for fi := 0; fi < len(best.World.Paths[pi].Files); fi++ {
				if len(best.World.Paths[pi].Files) <= 1 {
					break
				}
				c := best.Clone()
				fs := c.World.Paths[pi].Files
				c.World.Paths[pi].Files = append(fs[:fi:fi], fs[fi+1:]...)
				if try(c) {
					changed = true
					fi--
				}
			}
		}
		// drop items at any depth
		for pi := range best.World.Paths {
			for fi := range best.World.Paths[pi].Files {
				for {
					removed := false
					cnt := countItems(best.World.Paths[pi].Files[fi].Items)
					for k := 0; k < cnt && time.Now().Before(deadline); k++ {
						c := best.Clone()
						f := c.World.Paths[pi].Files[fi]
						idx := k
						f.Items = removeItem(f.Items, &idx)
						if try(c) {
							removed = true
							changed = true
							break
						}
					}
					if !removed {
						break
					}
				}
			}
		}
		// simplify expressions
		for pi := range best.World.Paths {
			for fi := range best.World.Paths[pi].Files {
				cnt := countExprs(best.World.Paths[pi].Files[fi].Items)
				for k := 0; k < cnt && time.Now().Before(deadline); k++ {
					for _, repl := range []*world.Expr{{K: "num", S: "1"}, {K: "str", S: "x"}, {K: "ref", S: "x"}} {
						c := best.Clone()
						idx := k
						if simplifyExpr(c.World.Paths[pi].Files[fi].Items, &idx, repl) && try(c) {
							changed = true
							cnt = countExprs(best.World.Paths[pi].Files[fi].Items)
							break
						}
					}
				}
			}
		}
		// drop schema elements
		for pi := range best.World.Paths {
			for {
				removed := false
				cnt := countSchema(best.World.Paths[pi].Schema)
				for k := 0; k < cnt && time.Now().Before(deadline); k++ {
					c := best.Clone()
					idx := k
					if removeSchema(c.World.Paths[pi].Schema, &idx) && try(c) {
						removed = true
						changed = true
						break
					}
				}
				if !removed {
					break
				}
			}
		}
		// drop functions, hooks, layout
		for pi := range best.World.Paths {
			if len(best.World.Paths[pi].Funcs) > 0 {
				c := best.Clone()
				c.World.Paths[pi].Funcs = nil
				if try(c) {
					changed = true
				}
			}
			for fi := range best.World.Paths[pi].Files {
				if best.World.Paths[pi].Files[fi].Layout != 0 {
					c := best.Clone()
					c.World.Paths[pi].Files[fi].Layout = 0
					if try(c) {
						changed = true
					}
				}
			}
		}
	}
	// 5. narrow again
	narrow()
	return best, v
}

func countItems(items []*world.Item) int {
	n := 0
	for _, it := range items {
		n++
		if it.Block != nil {
			n += countItems(it.Block.Body)
		}
	}
	return n
}

func removeItem(items []*world.Item, idx *int) []*world.Item {
	for i, it := range items {
		if *idx == 0 {
			*idx = -1
			return append(items[:i:i], items[i+1:]...)
		}
		*idx--
		if it.Block != nil {
			it.Block.Body = removeItem(it.Block.Body, idx)
			if *idx < 0 {
				return items
			}
		}
	}
	return items
}

func countExprs(items []*world.Item) int {
	n := 0
	world.WalkItems(items, func(it *world.Item, d int) {
		if it.Attr != nil {
			it.Attr.Expr.Walk(func(*world.Expr) { n++ })
		}
	})
	return n
}

func simplifyExpr(items []*world.Item, idx *int, repl *world.Expr) bool {
	done := false
	world.WalkItems(items, func(it *world.Item, d int) {
		if it.Attr == nil || done {
			return
		}
		it.Attr.Expr.Walk(func(e *world.Expr) {
			if done {
				return
			}
			if *idx == 0 {
				*idx = -1
				if len(e.A) == 0 && len(e.Keys) == 0 && e.K == repl.K {
					return
				}
				if len(e.A) == 0 && e.K != "heredoc" && e.K != "raw" && e.K != "type" && repl.K != "ref" {
					return
				}
				*e = *repl
				done = true
				return
			}
			*idx--
		})
	})
	return done
}

// schema elements: attributes and blocks of every body (static and dependent)
func countSchema(b *world.BodySpec) int {
	if b == nil {
		return 0
	}
	n := len(b.Attrs)
	for _, bl := range b.Blocks {
		n++
		n += countSchema(bl.Body)
		for _, d := range bl.Dep {
			n++
			n += countSchema(d.Body)
		}
	}
	return n
}

func removeSchema(b *world.BodySpec, idx *int) bool {
	if b == nil {
		return false
	}
	for i := range b.Attrs {
		if *idx == 0 {
			b.Attrs = append(b.Attrs[:i:i], b.Attrs[i+1:]...)
			return true
		}
		*idx--
	}
	for i, bl := range b.Blocks {
		if *idx == 0 {
			b.Blocks = append(b.Blocks[:i:i], b.Blocks[i+1:]...)
			return true
		}
		*idx--
		if removeSchema(bl.Body, idx) {
			return true
		}
		for j, d := range bl.Dep {
			if *idx == 0 {
				bl.Dep = append(bl.Dep[:j:j], bl.Dep[j+1:]...)
				return true
			}
			*idx--
			if removeSchema(d.Body, idx) {
				return true
			}
		}
	}
	return false
}
