// lssim is the simulator's command line: run (coordinator), worker, replay,
// minimise, selftest, gen, show.
package main

import (
	"bytes"
	"crypto/sha256"
	"encoding/hex"
	"encoding/json"
	"flag"
	"fmt"
	"os"
	"os/exec"
	"path/filepath"
	"runtime/pprof"
	"sort"
	"strconv"
	"strings"
	"time"

	"lssim/deep"
	h "lssim/harness"
	"lssim/oracle"
	"lssim/scen"
	"simrt"
)

func main() {
	if len(os.Args) < 2 {
		usage()
	}
	// a -race build reads the detector's reports from its log file: make sure
	// there is one (replay, minimise and the coordinator's in-process minimiser)
	if h.RaceBuild && !strings.Contains(os.Getenv("GORACE"), "log_path=") {
		d, err := os.MkdirTemp("", "lssim-race-")
		if err != nil {
			fmt.Fprintln(os.Stderr, err)
			os.Exit(2)
		}
		self, _ := os.Executable()
		c := exec.Command(self, os.Args[1:]...)
		c.Stdin, c.Stdout, c.Stderr = os.Stdin, os.Stdout, os.Stderr
		c.Env = append(os.Environ(), "GORACE=log_path="+filepath.Join(d, "race")+" halt_on_error=0 history_size=7 suppress_equal_stacks=0 suppress_equal_addresses=0 exitcode=0")
		err = c.Run()
		os.RemoveAll(d)
		if err != nil {
			if ee, ok := err.(*exec.ExitError); ok {
				os.Exit(ee.ExitCode())
			}
			fmt.Fprintln(os.Stderr, err)
			os.Exit(2)
		}
		os.Exit(0)
	}
	switch os.Args[1] {
	case "run":
		os.Exit(cmdRun(os.Args[2:]))
	case "worker":
		os.Exit(cmdWorker(os.Args[2:]))
	case "replay":
		os.Exit(cmdReplay(os.Args[2:]))
	case "minimise":
		os.Exit(cmdMinimise(os.Args[2:]))
	case "selftest":
		os.Exit(cmdSelftest(os.Args[2:]))
	case "gen":
		os.Exit(cmdGen(os.Args[2:]))
	case "show":
		os.Exit(cmdShow(os.Args[2:]))
	case "dump":
		sc, err := h.LoadScenario(os.Args[2])
		if err != nil {
			fmt.Fprintln(os.Stderr, err)
			os.Exit(2)
		}
		x, _ := runScenario(sc, nil, false)
		for _, p := range x.S.Paths {
			fmt.Printf("=== path %d %s\n", p.Index, p.Path.Path)
			for _, t := range p.Ctx().ReferenceTargets {
				fmt.Println("T", deep.Dump(t, deep.Options{}))
			}
			for _, o := range p.Ctx().ReferenceOrigins {
				fmt.Println("O", deep.Dump(o, deep.Options{}))
			}
		}
	case "properties":
		fmt.Println(strings.Join(oracle.Properties(), " "))
	default:
		usage()
	}
}

func usage() {
	fmt.Fprintln(os.Stderr, "usage: lssim run|worker|replay|minimise|selftest|gen|show ...")
	os.Exit(2)
}

// ---------------------------------------------------------------------------

// WorkerOut is what one worker process reports.
type WorkerOut struct {
	Worker       int               `json:"worker"`
	Scenarios    int               `json:"scenarios"`
	Evaluations  int64             `json:"evaluations"`
	ByKind       map[string]int64  `json:"by_kind"`
	NonTrivial   []string          `json:"nontrivial"` // hex hashes
	States       []string          `json:"states"`
	Interleave   []string          `json:"interleavings"`
	Checks       int64             `json:"checks"`
	Rounds       int64             `json:"rounds"`
	Switches     int64             `json:"switches"`
	Events       int64             `json:"events"`
	Probes       map[string]int64  `json:"probes"`
	Samples      []string          `json:"samples"`
	Fired        map[string]int64  `json:"fired"`
	Sim          SimOut            `json:"sim"`
	Violations   []ViolOut         `json:"violations"`
	LogHashes    map[string]string `json:"log_hashes"` // index -> hash
	WallS        float64           `json:"wall_s"`
	TimedOut     bool              `json:"timed_out"`
	RaceReports  int               `json:"race_reports"`
	PkgVars      []string          `json:"pkg_vars"`
	InFlight     int               `json:"in_flight"` // scenario index being executed (crash attribution)
	SimulatedOps int64             `json:"ticks"`
}

type SimOut struct {
	Tasks        int64    `json:"tasks"`
	Ticks        int64    `json:"ticks"`
	MapRanges    int64    `json:"map_ranges"`
	NonCanonical int64    `json:"non_canonical"`
	SitesSeen    []int    `json:"sites_seen"`
	SitesNonCan  []int    `json:"sites_noncanonical"`
	PolicyUse    []int64  `json:"policy_use"`
	Policies     []string `json:"policies"`
}

type ViolOut struct {
	Index       int          `json:"index"`
	Fingerprint string       `json:"fingerprint"`
	File        string       `json:"file"`
	V           *h.Violation `json:"v"`
}

func hexset(m map[[8]byte]bool) []string {
	out := make([]string, 0, len(m))
	for k := range m { // maporder:ok (sorted below)
		out = append(out, hex.EncodeToString(k[:]))
	}
	sort.Strings(out)
	return out
}

func bits(b []uint64) []int {
	var out []int
	for i, w := range b {
		for j := 0; j < 64; j++ {
			if w&(1<<uint(j)) != 0 {
				out = append(out, i*64+j)
			}
		}
	}
	return out
}

// runScenario executes one scenario with a fresh oracle.
func runScenario(sc *h.Scenario, cov *h.Coverage, keepLog bool) (*h.Exec, *h.Violation) {
	o := oracle.New(sc.Property)
	if o == nil {
		fmt.Fprintf(os.Stderr, "lssim: no oracle for %s\n", sc.Property)
		os.Exit(2)
	}
	if cov == nil {
		cov = h.NewCoverage()
	}
	x := h.NewExec(sc, o, cov)
	if keepLog {
		x.LogText = &strings.Builder{}
	}
	x.Execute()
	if len(x.Viol) > 0 {
		return x, x.Viol[0]
	}
	return x, nil
}

// runWithPrelude executes the scenarios named by sc.Prelude (regenerated from
// property, tier, seed and index) and then sc, all in this process.
func runWithPrelude(sc *h.Scenario, cov *h.Coverage, keepLog bool) (*h.Exec, *h.Violation) {
	for _, idx := range sc.Prelude {
		runScenario(scen.Generate(sc.Property, sc.Tier, sc.Seed, idx).Clone(), nil, false)
	}
	return runScenario(sc, cov, keepLog)
}

func cmdWorker(args []string) int {
	fs := flag.NewFlagSet("worker", flag.ExitOnError)
	prop := fs.String("property", "", "")
	tier := fs.String("tier", "quick", "")
	seed := fs.Uint64("seed", 1, "")
	worker := fs.Int("worker", 0, "")
	nworkers := fs.Int("nworkers", 1, "")
	count := fs.Int("count", 1, "scenarios for this worker")
	out := fs.String("out", ".", "")
	deadline := fs.Float64("deadline", 0, "seconds (0 = none)")
	maxViol := fs.Int("maxviol", 8, "stop after this many violating scenarios")
	isolate := fs.Bool("isolate", h.RaceBuild, "run every scenario in a process of its own (race builds: detection must not depend on what ran before)")
	single := fs.Int("single", -1, "run exactly this scenario index (used by -isolate)")
	fs.Parse(args)
	initKnownWorker()

	if pf := os.Getenv("LSSIM_CPUPROFILE"); pf != "" {
		f, _ := os.Create(pf)
		pprof.StartCPUProfile(f)
		defer pprof.StopCPUProfile()
	}
	start := time.Now()
	cov := h.NewCoverage()
	w := &WorkerOut{Worker: *worker, LogHashes: map[string]string{}, InFlight: -1}
	var storeStats h.Stats
	flush := func() {
		w.Evaluations = cov.Evaluations
		w.ByKind = cov.ByKind
		w.NonTrivial = hexset(cov.NonTrivial)
		w.States = hexset(cov.States)
		w.Interleave = hexset(cov.Interleave)
		w.Checks, w.Rounds, w.Switches, w.Events = cov.Checks, cov.Rounds, cov.Switches, cov.Events
		w.Probes = cov.Probes
		w.Samples = cov.Samples
		w.Fired = map[string]int64{}
		for i, k := range h.FaultKinds {
			w.Fired[k] = storeStats.Fired[i]
		}
		w.Sim = SimOut{Tasks: h.Sim.Tasks, Ticks: h.Sim.Ticks, MapRanges: h.Sim.MapRanges, NonCanonical: h.Sim.NonCanonical,
			SitesSeen: bits(h.Sim.SiteSeen[:]), SitesNonCan: bits(h.Sim.SiteNonCanon[:]), PolicyUse: h.Sim.PolicyUse[:],
			Policies: []string{"asc", "desc", "rotate", "shuffle", "pinfirst", "pinlast"}}
		w.WallS = time.Since(start).Seconds()
		w.PkgVars = w.PkgVars[:0] // flush runs many times
		for _, v := range simrt.PkgVars() {
			w.PkgVars = append(w.PkgVars, v.Name)
		}
		b, _ := json.MarshalIndent(w, "", " ")
		tmp := filepath.Join(*out, fmt.Sprintf("worker-%d.json.tmp", *worker))
		os.WriteFile(tmp, b, 0o644)
		os.Rename(tmp, filepath.Join(*out, fmt.Sprintf("worker-%d.json", *worker)))
	}
	nviol := 0
	if *isolate && *single < 0 {
		return isolatedWorker(*prop, *tier, *seed, *worker, *nworkers, *count, *out, *deadline, *maxViol)
	}
	for j := 0; j < *count; j++ {
		if *deadline > 0 && time.Since(start).Seconds() > *deadline {
			w.TimedOut = true
			break
		}
		idx := *worker + *nworkers*j
		if *single >= 0 {
			idx = *single
		}
		// what runs is what a replay file holds: the generated scenario after a
		// JSON round trip (objects the generator shares between two places of a
		// world become copies, as they are for anyone loading the file)
		sc := scen.Generate(*prop, *tier, *seed, idx).Clone()
		// crash attribution: record what is in flight before running it
		w.InFlight = idx
		sc.Save(filepath.Join(*out, fmt.Sprintf("inflight-%d.json", *worker)))
		x, v := runScenario(sc, cov, false)
		for i := range storeStats.Fired {
			storeStats.Fired[i] += x.S.Stats.Fired[i]
		}
		w.Scenarios++
		w.LogHashes[strconv.Itoa(idx)] = x.LogHash()
		if v != nil {
			// a recorded finding does not end the exploration: keep two samples
			// of it and go on
			if knownWorkerFP[v.Fingerprint] {
				knownHits[v.Fingerprint]++
				if knownHits[v.Fingerprint] > 2 {
					continue
				}
			}
			sc.Violation = v
			f := filepath.Join(*out, fmt.Sprintf("viol-%d.json", idx))
			sc.Save(f)
			w.Violations = append(w.Violations, ViolOut{Index: idx, Fingerprint: v.Fingerprint, File: f, V: v})
			if !knownWorkerFP[v.Fingerprint] {
				nviol++
			}
			if nviol >= *maxViol {
				break
			}
		}
		if j%8 == 7 {
			flush()
		}
	}
	w.InFlight = -1
	os.Remove(filepath.Join(*out, fmt.Sprintf("inflight-%d.json", *worker)))
	flush()
	return 0
}

// isolatedWorker runs each scenario in a child process and merges the reports.
func isolatedWorker(prop, tier string, seed uint64, worker, nworkers, count int, out string, deadline float64, maxViol int) int {
	start := time.Now()
	self, _ := os.Executable()
	tot := &WorkerOut{Worker: worker, ByKind: map[string]int64{}, Probes: map[string]int64{}, Fired: map[string]int64{}, LogHashes: map[string]string{}, InFlight: -1}
	nt, st, il := map[string]bool{}, map[string]bool{}, map[string]bool{}
	seen, nc := map[int]bool{}, map[int]bool{}
	pol := make([]int64, 6)
	for j := 0; j < count; j++ {
		if deadline > 0 && time.Since(start).Seconds() > deadline {
			tot.TimedOut = true
			break
		}
		idx := worker + nworkers*j
		sub := filepath.Join(out, fmt.Sprintf("iso-%d", idx))
		os.MkdirAll(sub, 0o755)
		c := exec.Command(self, "worker", "-property", prop, "-tier", tier, "-seed", strconv.FormatUint(seed, 10),
			"-worker", "0", "-nworkers", "1", "-count", "1", "-single", strconv.Itoa(idx), "-out", sub, "-isolate=false")
		c.Env = append(os.Environ(), "GORACE=log_path="+filepath.Join(sub, "race")+" halt_on_error=0 history_size=7 suppress_equal_stacks=0 suppress_equal_addresses=0 exitcode=0")
		ob, err := c.CombinedOutput()
		b, rerr := os.ReadFile(filepath.Join(sub, "worker-0.json"))
		var w WorkerOut
		if rerr == nil {
			rerr = json.Unmarshal(b, &w)
		}
		if err != nil || rerr != nil {
			fmt.Fprintf(os.Stderr, "lssim: isolated scenario %d failed: %v %v\n%s\n", idx, err, rerr, short(string(ob), 2000))
			os.RemoveAll(sub)
			return 3
		}
		tot.Scenarios += w.Scenarios
		tot.Evaluations += w.Evaluations
		tot.Checks += w.Checks
		tot.Rounds += w.Rounds
		tot.Switches += w.Switches
		tot.Events += w.Events
		tot.Sim.Tasks += w.Sim.Tasks
		tot.Sim.Ticks += w.Sim.Ticks
		tot.Sim.MapRanges += w.Sim.MapRanges
		tot.Sim.NonCanonical += w.Sim.NonCanonical
		for k, v := range w.ByKind { // maporder:ok
			tot.ByKind[k] += v
		}
		for k, v := range w.Probes { // maporder:ok
			tot.Probes[k] += v
		}
		for k, v := range w.Fired { // maporder:ok
			tot.Fired[k] += v
		}
		for k, v := range w.LogHashes { // maporder:ok
			tot.LogHashes[k] = v
		}
		for _, x := range w.NonTrivial {
			nt[x] = true
		}
		for _, x := range w.States {
			st[x] = true
		}
		for _, x := range w.Interleave {
			il[x] = true
		}
		for _, x := range w.Sim.SitesSeen {
			seen[x] = true
		}
		for _, x := range w.Sim.SitesNonCan {
			nc[x] = true
		}
		for i, v := range w.Sim.PolicyUse {
			pol[i] += v
		}
		if len(tot.Samples) < 4 {
			tot.Samples = append(tot.Samples, w.Samples...)
		}
		tot.PkgVars = w.PkgVars
		for _, v := range w.Violations {
			dst := filepath.Join(out, filepath.Base(v.File))
			os.Rename(v.File, dst)
			v.File = dst
			tot.Violations = append(tot.Violations, v)
		}
		os.RemoveAll(sub)
		fresh := 0
		for _, v := range tot.Violations {
			if !knownWorkerFP[v.Fingerprint] {
				fresh++
			}
		}
		if fresh >= maxViol {
			break
		}
	}
	setKeys := func(m map[string]bool) []string {
		o := make([]string, 0, len(m))
		for k := range m { // maporder:ok (sorted below)
			o = append(o, k)
		}
		sort.Strings(o)
		return o
	}
	intKeys := func(m map[int]bool) []int {
		o := make([]int, 0, len(m))
		for k := range m { // maporder:ok (sorted below)
			o = append(o, k)
		}
		sort.Ints(o)
		return o
	}
	tot.NonTrivial, tot.States, tot.Interleave = setKeys(nt), setKeys(st), setKeys(il)
	tot.Sim.SitesSeen, tot.Sim.SitesNonCan, tot.Sim.PolicyUse = intKeys(seen), intKeys(nc), pol
	tot.WallS = time.Since(start).Seconds()
	b, _ := json.MarshalIndent(tot, "", " ")
	os.WriteFile(filepath.Join(out, fmt.Sprintf("worker-%d.json", worker)), b, 0o644)
	return 0
}

// runFresh executes a scenario in a fresh process (race builds) and returns its violation.
func runFresh(sc *h.Scenario) *h.Violation {
	self, _ := os.Executable()
	d, err := os.MkdirTemp("", "lssim-fresh-")
	if err != nil {
		return nil
	}
	defer os.RemoveAll(d)
	f := filepath.Join(d, "sc.json")
	sc.Save(f)
	c := exec.Command(self, "replay", "-json", f)
	c.Env = append(os.Environ(), "GORACE=log_path="+filepath.Join(d, "race")+" halt_on_error=0 history_size=7 suppress_equal_stacks=0 suppress_equal_addresses=0 exitcode=0")
	ob, _ := c.Output()
	i := bytes.Index(ob, []byte("VIOLATION-JSON "))
	if i < 0 {
		return nil
	}
	line := ob[i+len("VIOLATION-JSON "):]
	if j := bytes.IndexByte(line, '\n'); j >= 0 {
		line = line[:j]
	}
	var v h.Violation
	if json.Unmarshal(line, &v) != nil {
		return nil
	}
	return &v
}

// runner returns the scenario runner the minimiser should use.
func runner() h.RunFunc {
	if h.RaceBuild {
		return runFresh
	}
	return func(s *h.Scenario) *h.Violation { _, vv := runScenario(s, nil, false); return vv }
}

// ---------------------------------------------------------------------------

type Known struct {
	Findings []KnownFinding `json:"findings"`
	Fixed    []string       `json:"fixed"`
}

type KnownFinding struct {
	Property    string `json:"property"`
	Fingerprint string `json:"fingerprint"`
	What        string `json:"what"`
}

// fingerprints of recorded findings, for the workers (LSSIM_KNOWN is set by
// the coordinator); they never stop a worker early
var knownWorkerFP = map[string]bool{}
var knownHits = map[string]int{}

func initKnownWorker() {
	if p := os.Getenv("LSSIM_KNOWN"); p != "" {
		for _, k := range loadKnown(p).Findings {
			knownWorkerFP[k.Fingerprint] = true
		}
	}
}

func loadKnown(path string) *Known {
	k := &Known{}
	b, err := os.ReadFile(path)
	if err != nil {
		return k
	}
	if err := json.Unmarshal(b, k); err != nil {
		fmt.Fprintf(os.Stderr, "lssim: %s: %v\n", path, err)
		os.Exit(2)
	}
	return k
}

// tier budgets: scenarios per worker
func budget(prop, tier string) (count int, deadline float64) {
	q := map[string]int{"C01": 5, "C02": 6, "C03": 6, "C04": 6, "C05": 30, "C06": 6, "C07": 20, "C08": 60, "C09": 1000, "C10": 1000, "C11": 60, "C12": 40, "C13": 100, "C14": 8, "C15": 1500, "C16": 600, "C18": 30, "C19": 600}
	t := map[string]int{"C01": 80, "C02": 60, "C03": 80, "C04": 60, "C05": 150, "C06": 60, "C07": 600, "C08": 1500, "C09": 20000, "C10": 20000, "C11": 800, "C12": 400, "C13": 1500, "C14": 80, "C15": 20000, "C16": 8000, "C18": 300, "C19": 10000}
	if tier == "thorough" {
		if n, ok := t[prop]; ok {
			return n, 1500
		}
		return 100, 1500
	}
	if n, ok := q[prop]; ok {
		return n, 150
	}
	return 10, 150
}

var levels = map[string]string{"C14": "fault_enumeration"}

func cmdRun(args []string) int {
	fs := flag.NewFlagSet("run", flag.ExitOnError)
	prop := fs.String("property", "", "")
	tier := fs.String("tier", "quick", "")
	seed := fs.Uint64("seed", 1, "")
	workers := fs.Int("workers", 16, "")
	out := fs.String("out", "", "scratch dir for worker output")
	evidence := fs.String("evidence", "", "evidence file to write")
	replays := fs.String("replays", "/verif/replays", "")
	knownPath := fs.String("known", "/verif/KNOWN_FINDINGS.json", "")
	countF := fs.Int("count", 0, "override scenarios per worker")
	sites := fs.String("sites", "", "site table from simrewrite")
	race := fs.Bool("race", false, "binary is a -race build")
	fs.Parse(args)
	start := time.Now()
	if oracle.New(*prop) == nil {
		fmt.Fprintf(os.Stderr, "lssim: no oracle for property %q\n", *prop)
		return 2
	}
	if *out == "" {
		d, err := os.MkdirTemp("", "lssim-run-")
		if err != nil {
			fmt.Fprintln(os.Stderr, err)
			return 2
		}
		*out = d
		defer os.RemoveAll(d)
	}
	os.MkdirAll(*out, 0o755)
	os.MkdirAll(*replays, 0o755)
	count, deadline := budget(*prop, *tier)
	if *countF > 0 {
		count = *countF
	}
	self, _ := os.Executable()
	fmt.Printf("lssim: property=%s tier=%s VERIF_SEED=%d workers=%d scenarios/worker=%d\n", *prop, *tier, *seed, *workers, count)

	type proc struct {
		cmd *exec.Cmd
		err error
		buf *bytes.Buffer
	}
	procs := make([]*proc, *workers)
	for i := 0; i < *workers; i++ {
		c := exec.Command(self, "worker", "-property", *prop, "-tier", *tier, "-seed", strconv.FormatUint(*seed, 10),
			"-worker", strconv.Itoa(i), "-nworkers", strconv.Itoa(*workers), "-count", strconv.Itoa(count), "-out", *out,
			"-deadline", strconv.FormatFloat(deadline, 'f', 0, 64))
		buf := &bytes.Buffer{}
		c.Stdout, c.Stderr = buf, buf
		c.Env = append(os.Environ(), "LSSIM_KNOWN="+*knownPath, "GOMAXPROCS=2", "GORACE=log_path="+filepath.Join(*out, fmt.Sprintf("race-%d", i))+" halt_on_error=0 history_size=7 suppress_equal_stacks=0 suppress_equal_addresses=0 exitcode=0")
		procs[i] = &proc{cmd: c, buf: buf}
		if err := c.Start(); err != nil {
			fmt.Fprintln(os.Stderr, "lssim: start worker:", err)
			return 2
		}
	}
	for _, p := range procs {
		p.err = p.cmd.Wait()
	}

	// merge
	merged := &WorkerOut{ByKind: map[string]int64{}, Probes: map[string]int64{}, Fired: map[string]int64{}}
	nt, st, il := map[string]bool{}, map[string]bool{}, map[string]bool{}
	sitesSeen, sitesNC := map[int]bool{}, map[int]bool{}
	policyUse := make([]int64, 6)
	var viols []ViolOut
	infra := false
	timedOut := 0
	for i, p := range procs {
		b, err := os.ReadFile(filepath.Join(*out, fmt.Sprintf("worker-%d.json", i)))
		var w WorkerOut
		if err == nil {
			err = json.Unmarshal(b, &w)
		}
		if p.err != nil {
			// the worker died: a crash the recover() could not catch (stack
			// overflow, fatal error) - attribute it to the in-flight scenario
			inf := filepath.Join(*out, fmt.Sprintf("inflight-%d.json", i))
			if sc, e := h.LoadScenario(inf); e == nil && *prop == "C01" {
				v := &h.Violation{Property: "C01", Clause: "fatal", Site: fatalSite(p.buf.String()), Shape: "process-died", Detail: short(p.buf.String(), 3000), Event: len(sc.Events) - 1}
				v.Fingerprint = v.FP()
				sc.Violation = v
				f := filepath.Join(*out, fmt.Sprintf("viol-fatal-%d.json", i))
				sc.Save(f)
				viols = append(viols, ViolOut{Index: sc.Index, Fingerprint: v.Fingerprint, File: f, V: v})
			} else {
				fmt.Fprintf(os.Stderr, "lssim: worker %d failed: %v\n%s\n", i, p.err, short(p.buf.String(), 4000))
				infra = true
			}
		}
		if err != nil {
			if p.err == nil {
				fmt.Fprintf(os.Stderr, "lssim: worker %d produced no report: %v\n", i, err)
				infra = true
			}
			continue
		}
		merged.Scenarios += w.Scenarios
		merged.Evaluations += w.Evaluations
		merged.Checks += w.Checks
		merged.Rounds += w.Rounds
		merged.Switches += w.Switches
		merged.Events += w.Events
		merged.Sim.Tasks += w.Sim.Tasks
		merged.Sim.Ticks += w.Sim.Ticks
		merged.Sim.MapRanges += w.Sim.MapRanges
		merged.Sim.NonCanonical += w.Sim.NonCanonical
		for k, v := range w.ByKind { // maporder:ok (commutative sum)
			merged.ByKind[k] += v
		}
		for k, v := range w.Probes { // maporder:ok
			merged.Probes[k] += v
		}
		for k, v := range w.Fired { // maporder:ok
			merged.Fired[k] += v
		}
		for _, s := range w.NonTrivial {
			nt[s] = true
		}
		for _, s := range w.States {
			st[s] = true
		}
		for _, s := range w.Interleave {
			il[s] = true
		}
		for _, s := range w.Sim.SitesSeen {
			sitesSeen[s] = true
		}
		for _, s := range w.Sim.SitesNonCan {
			sitesNC[s] = true
		}
		for j, v := range w.Sim.PolicyUse {
			policyUse[j] += v
		}
		if len(merged.Samples) < 6 {
			for _, s := range w.Samples {
				if len(merged.Samples) < 6 {
					merged.Samples = append(merged.Samples, s)
				}
			}
		}
		if w.TimedOut {
			timedOut++
		}
		if len(w.PkgVars) > 0 {
			merged.PkgVars = w.PkgVars
		}
		viols = append(viols, w.Violations...)
	}
	// race reports (C05): parsed by the oracle inside the worker; leftover logs
	// (reports outside any round) are infrastructure noise and listed
	raceLogs, _ := filepath.Glob(filepath.Join(*out, "race-*"))

	sort.SliceStable(viols, func(i, j int) bool { return viols[i].Index < viols[j].Index })
	known := loadKnown(*knownPath)
	knownFP := map[string]string{}
	for _, k := range known.Findings {
		knownFP[k.Fingerprint] = k.What
	}
	seenFP := map[string]bool{}
	exit := 0
	var knownSeen []string
	nViolNew := 0
	minBudget := 25 * time.Second
	for _, v := range viols {
		if nViolNew >= 3 {
			minBudget = 5 * time.Second
		}
		if seenFP[v.Fingerprint] {
			continue
		}
		seenFP[v.Fingerprint] = true
		if what, ok := knownFP[v.Fingerprint]; ok {
			fmt.Printf("KNOWN-FINDING: property=%s %s (%s)\n", *prop, what, v.Fingerprint)
			knownSeen = append(knownSeen, v.Fingerprint)
			continue
		}
		nViolNew++
		// minimise, store, replay in a fresh process
		sc, err := h.LoadScenario(v.File)
		if err != nil {
			fmt.Fprintln(os.Stderr, "lssim:", err)
			infra = true
			continue
		}
		name := fmt.Sprintf("%s-%s.json", *prop, fphash(v.Fingerprint))
		dst := filepath.Join(*replays, name)
		if v.V.Clause == "fatal" {
			sc.Save(dst)
		} else {
			min, mv := h.Minimise(sc, runner(), time.Now().Add(minBudget))
			if mv != nil {
				min.Violation = mv
				sc = min
			}
			sc.Save(dst)
			// replay in a fresh process: must reproduce the same fingerprint
			rc := exec.Command(self, "replay", dst)
			rc.Env = append(os.Environ(), "GORACE=log_path="+filepath.Join(*out, "race-replay")+" halt_on_error=0 history_size=7 suppress_equal_stacks=0 suppress_equal_addresses=0 exitcode=0")
			ob, _ := rc.CombinedOutput()
			if !strings.Contains(string(ob), "fingerprint="+sc.Violation.Fingerprint) {
				// The scenario alone does not fail in a fresh process. If the worker's
				// earlier scenarios are needed (the library keeps state between
				// requests at process level), replay it with them as a prelude.
				hist, herr := h.LoadScenario(v.File)
				reproduced := false
				if herr == nil && !h.RaceBuild && *workers > 0 {
					w := v.Index % *workers
					for k := w; k < v.Index; k += *workers {
						hist.Prelude = append(hist.Prelude, k)
					}
					want := hist.Violation.Fingerprint
					fails := func(c *h.Scenario) bool {
						nv := runFresh(c)
						return nv != nil && nv.Fingerprint == want
					}
					alone := hist.Clone()
					alone.Prelude = nil
					if fails(alone) {
						// the scenario as generated fails on its own; only the version
						// minimised in this (long-lived) process did not: minimise again
						// with one fresh process per candidate
						reproduced = true
						if min, mv := h.Minimise(alone, runFresh, time.Now().Add(60*time.Second)); mv != nil {
							min.Violation = mv
							alone = min
						}
						hist = alone
					} else if len(hist.Prelude) > 0 && fails(hist) {
						reproduced = true
						// shrink the prelude (ddmin over whole scenarios)
						deadline := time.Now().Add(90 * time.Second)
						n := 2
						for len(hist.Prelude) > 0 && time.Now().Before(deadline) {
							chunk := (len(hist.Prelude) + n - 1) / n
							reduced := false
							for s0 := 0; s0 < len(hist.Prelude) && time.Now().Before(deadline); s0 += chunk {
								e0 := s0 + chunk
								if e0 > len(hist.Prelude) {
									e0 = len(hist.Prelude)
								}
								c := hist.Clone()
								c.Prelude = append(append([]int(nil), hist.Prelude[:s0]...), hist.Prelude[e0:]...)
								if fails(c) {
									hist = c
									reduced = true
									break
								}
							}
							if !reduced {
								if chunk <= 1 {
									break
								}
								n *= 2
								if n > len(hist.Prelude) {
									n = len(hist.Prelude)
								}
							} else if n > 2 {
								n--
							}
						}
						if len(hist.Prelude) == 0 {
							reproduced = false // inconsistent with the run alone above
						}
					}
				}
				if !reproduced {
					fmt.Fprintf(os.Stderr, "lssim: replay of %s did not reproduce %s:\n%s\n", dst, sc.Violation.Fingerprint, short(string(ob), 2000))
					os.Rename(dst, dst+".unreproduced")
					infra = true
					continue
				}
				if len(hist.Prelude) > 0 {
					hist.Violation.Detail += fmt.Sprintf("\n(history-dependent: fails only after %d earlier scenario(s) ran in the same process, i.e. the library keeps state between requests; the replay file lists them as prelude)", len(hist.Prelude))
				}
				sc = hist
				sc.Save(dst)
			}
		}
		fmt.Printf("VIOLATION property=%s replay=%s\n", *prop, dst)
		fmt.Printf("  fingerprint: %s\n  detail: %s\n", sc.Violation.Fingerprint, short(strings.ReplaceAll(sc.Violation.Detail, "\n", "\n    "), 1500))
		exit = 1
	}

	// evidence
	wall := time.Since(start).Seconds()
	level := "exploration"
	if l, ok := levels[*prop]; ok {
		level = l
	}
	var siteTable []map[string]any
	if *sites != "" {
		if b, err := os.ReadFile(*sites); err == nil {
			json.Unmarshal(b, &siteTable)
		}
	}
	var mapSites, mapSitesSeen, mapSitesNC int
	var neverNC []string
	for _, s := range siteTable {
		if s["kind"] == "maprange" {
			mapSites++
			id := int(s["id"].(float64))
			if sitesSeen[id] {
				mapSitesSeen++
			}
			if sitesNC[id] {
				mapSitesNC++
			} else {
				neverNC = append(neverNC, fmt.Sprint(s["pos"]))
			}
		}
	}
	zeroProbes := []string{}
	for _, k := range sortedKeys(merged.Probes) {
		if merged.Probes[k] == 0 {
			zeroProbes = append(zeroProbes, k)
		}
	}
	if len(merged.Samples) == 0 {
		merged.Samples = []string{"(no sample recorded)"}
	}
	hours := wall / 3600
	ev := map[string]any{
		"property_id": *prop,
		"tier":        *tier,
		"seed":        *seed,
		"level":       level,
		"wall_s":      wall,
		"violations":  nViolNew,
		"coverage": map[string]any{
			"evaluations":         merged.Evaluations,
			"distinct_nontrivial": len(nt),
			"rule": "one evaluation = one execution of a library entry point under a simulator task (map-order policy + tick budget) in a scenario generated from VERIF_SEED; " +
				"distinct_nontrivial = number of distinct (query kind, canonical result) pairs whose result is non-empty and not an error, counted by hashing the canonical dump",
			"samples":                  merged.Samples,
			"scenarios":                merged.Scenarios,
			"scenarios_per_hour":       float64(merged.Scenarios) / hours,
			"seeds":                    1,
			"seed_indices":             fmt.Sprintf("index 0..%d of VERIF_SEED=%d", *workers*count-1, *seed),
			"events_executed":          merged.Events,
			"simulated_time":           "not applicable: the system under test reads no clock; logical steps are reported instead",
			"logical_steps_ticks":      merged.Sim.Ticks,
			"tasks":                    merged.Sim.Tasks,
			"checks":                   merged.Checks,
			"distinct_states":          len(st),
			"concurrent_rounds":        merged.Rounds,
			"context_switches":         merged.Switches,
			"distinct_interleavings":   len(il),
			"queries_by_kind":          merged.ByKind,
			"faults_fired":             merged.Fired,
			"map_ranges_executed":      merged.Sim.MapRanges,
			"map_ranges_noncanonical":  merged.Sim.NonCanonical,
			"map_order_policy_use":     policyUseMap(policyUse),
			"map_range_sites":          mapSites,
			"map_range_sites_executed": mapSitesSeen,
			"map_range_sites_permuted": mapSitesNC,
			"map_range_sites_never_permuted": neverNC,
			"reach_probes":             merged.Probes,
			"zero_probes":              zeroProbes,
			"workers_timed_out":        timedOut,
			"known_findings_seen":      knownSeen,
			"package_level_vars":       merged.PkgVars,
			"race_build":               *race,
			"stray_race_logs":          len(raceLogs),
			"components": map[string]any{
				"real": []string{"hcl-lang: decoder, schema, reference, lang, validator, schemacontext (instrumented scratch copy of /repo's working tree)", "hashicorp/hcl/v2 parsers (hclsyntax, json)", "zclconf/go-cty"},
				"stub": []string{"language-server store (buffers, parsed files, schema versions, collected targets/origins)", "indexer jobs (start/finish/drop decided by the scenario)", "PathReader with fault injection", "completion hooks, code lenses", "editors (edit events)"},
			},
		},
		"assumptions": []string{
			"the stub language server models a deployment (terraform-ls style indexer); hcl-lang itself runs real code",
			"map iteration order is controlled in hcl-lang's own sources; hcl/v2, go-cty and the standard library run with the runtime's order",
			"sampling, not proof: a clean batch is evidence only",
		},
	}
	if *evidence != "" {
		b, _ := json.MarshalIndent(ev, "", " ")
		os.MkdirAll(filepath.Dir(*evidence), 0o755)
		if err := os.WriteFile(*evidence, append(b, '\n'), 0o644); err != nil {
			fmt.Fprintln(os.Stderr, "lssim:", err)
			infra = true
		}
	}
	fmt.Printf("lssim: %d scenarios, %d evaluations, %d distinct non-trivial results, %d states, %.1fs; faults fired: %v\n",
		merged.Scenarios, merged.Evaluations, len(nt), len(st), wall, compactFired(merged.Fired))
	if infra && exit == 0 {
		return 2
	}
	if merged.Scenarios == 0 {
		fmt.Fprintln(os.Stderr, "lssim: nothing executed")
		return 2
	}
	return exit
}

func policyUseMap(u []int64) map[string]int64 {
	names := []string{"asc", "desc", "rotate", "shuffle", "pinfirst", "pinlast"}
	out := map[string]int64{}
	for i, n := range names {
		if i < len(u) {
			out[n] = u[i]
		}
	}
	return out
}

func compactFired(m map[string]int64) string {
	var parts []string
	for _, k := range sortedKeys(m) {
		if m[k] > 0 {
			parts = append(parts, fmt.Sprintf("%s=%d", k, m[k]))
		}
	}
	return strings.Join(parts, " ")
}

func sortedKeys(m map[string]int64) []string {
	out := make([]string, 0, len(m))
	for k := range m { // maporder:ok (sorted below)
		out = append(out, k)
	}
	sort.Strings(out)
	return out
}

func fatalSite(out string) string {
	for _, line := range strings.Split(out, "\n") {
		if strings.HasPrefix(line, "github.com/hashicorp/hcl-lang/") {
			if i := strings.LastIndex(line, "("); i > 0 {
				return strings.TrimPrefix(line[:i], "github.com/hashicorp/hcl-lang/")
			}
		}
	}
	return "unknown"
}

func short(s string, n int) string {
	if len(s) <= n {
		return s
	}
	return s[:n] + "…"
}

func fphash(fp string) string {
	s := sha256.Sum256([]byte(fp))
	return hex.EncodeToString(s[:5])
}

// ---------------------------------------------------------------------------

func cmdReplay(args []string) int {
	fs := flag.NewFlagSet("replay", flag.ExitOnError)
	verbose := fs.Bool("v", false, "print the event log")
	asJSON := fs.Bool("json", false, "print the violation as one JSON line")
	fs.Parse(args)
	if fs.NArg() != 1 {
		fmt.Fprintln(os.Stderr, "usage: lssim replay [-v] <scenario.json>")
		return 2
	}
	sc, err := h.LoadScenario(fs.Arg(0))
	if err != nil {
		fmt.Fprintln(os.Stderr, "lssim:", err)
		return 2
	}
	x, v := runWithPrelude(sc, nil, *verbose)
	if *verbose {
		fmt.Print(x.LogText.String())
	}
	if len(sc.Prelude) > 0 {
		fmt.Printf("lssim: %d earlier scenario(s) of the same batch were executed first in this process (prelude)\n", len(sc.Prelude))
	}
	fmt.Printf("lssim: replay %s: log=%s evaluations=%d\n", fs.Arg(0), x.LogHash(), x.Cov.Evaluations)
	if v == nil {
		fmt.Println("lssim: no violation")
		if sc.Violation != nil {
			fmt.Printf("lssim: recorded violation %s did NOT reproduce\n", sc.Violation.Fingerprint)
		}
		return 0
	}
	if *asJSON {
		b, _ := json.Marshal(v)
		fmt.Printf("VIOLATION-JSON %s\n", b)
	}
	fmt.Printf("VIOLATION property=%s replay=%s\n  fingerprint=%s\n  detail: %s\n", v.Property, fs.Arg(0), v.Fingerprint, short(v.Detail, 3000))
	if sc.Violation != nil && sc.Violation.Fingerprint != v.Fingerprint {
		fmt.Printf("lssim: recorded fingerprint was %s\n", sc.Violation.Fingerprint)
	}
	return 1
}

func cmdMinimise(args []string) int {
	fs := flag.NewFlagSet("minimise", flag.ExitOnError)
	out := fs.String("o", "", "output file")
	secs := fs.Int("t", 120, "time budget (s)")
	fs.Parse(args)
	if fs.NArg() != 1 || *out == "" {
		fmt.Fprintln(os.Stderr, "usage: lssim minimise -o out.json in.json")
		return 2
	}
	sc, err := h.LoadScenario(fs.Arg(0))
	if err != nil {
		fmt.Fprintln(os.Stderr, err)
		return 2
	}
	min, v := h.Minimise(sc, runner(), time.Now().Add(time.Duration(*secs)*time.Second))
	if v == nil {
		fmt.Println("lssim: scenario does not fail")
		return 0
	}
	min.Violation = v
	min.Save(*out)
	fmt.Printf("lssim: minimised to %d events; %s\n", len(min.Events), v.Fingerprint)
	return 1
}

func cmdGen(args []string) int {
	fs := flag.NewFlagSet("gen", flag.ExitOnError)
	prop := fs.String("property", "C01", "")
	tier := fs.String("tier", "quick", "")
	seed := fs.Uint64("seed", 1, "")
	index := fs.Int("index", 0, "")
	fs.Parse(args)
	sc := scen.Generate(*prop, *tier, *seed, *index)
	b, _ := json.MarshalIndent(sc, "", " ")
	fmt.Println(string(b))
	return 0
}

func cmdShow(args []string) int {
	if len(args) != 1 {
		return 2
	}
	sc, err := h.LoadScenario(args[0])
	if err != nil {
		fmt.Fprintln(os.Stderr, err)
		return 2
	}
	s := h.NewStore(sc.World)
	for _, p := range s.Paths {
		for _, f := range p.Files {
			fmt.Printf("=== %s/%s (%d bytes)\n%s\n", p.Path.Path, f.Name, len(f.Text), f.Text)
		}
	}
	fmt.Printf("events: %d\n", len(sc.Events))
	if sc.Violation != nil {
		fmt.Printf("violation: %s\n%s\n", sc.Violation.Fingerprint, sc.Violation.Detail)
	}
	return 0
}

// selftest: determinism of the simulator. Runs scenarios twice in this
// process and prints their log hashes; the check script runs this command in
// many processes at several GOMAXPROCS values and diffs the output.
func cmdSelftest(args []string) int {
	fs := flag.NewFlagSet("selftest", flag.ExitOnError)
	props := fs.String("properties", "C01,C03", "")
	seed := fs.Uint64("seed", 1, "")
	n := fs.Int("n", 3, "scenarios per property")
	tier := fs.String("tier", "quick", "")
	fs.Parse(args)
	bad := false
	for _, p := range strings.Split(*props, ",") {
		if oracle.New(p) == nil {
			continue
		}
		for i := 0; i < *n; i++ {
			sc := scen.Generate(p, *tier, *seed, i)
			b1, _ := json.Marshal(sc)
			sc2 := scen.Generate(p, *tier, *seed, i)
			b2, _ := json.Marshal(sc2)
			if !bytes.Equal(b1, b2) {
				fmt.Printf("NONDETERMINISTIC generation %s/%d\n", p, i)
				bad = true
			}
			x1, _ := runScenario(sc, nil, false)
			x2, _ := runScenario(sc2.Clone(), nil, false)
			if x1.LogHash() != x2.LogHash() {
				fmt.Printf("NONDETERMINISTIC execution %s/%d %s %s\n", p, i, x1.LogHash(), x2.LogHash())
				bad = true
			}
			gh := sha256.Sum256(b1)
			fmt.Printf("%s %d gen=%s log=%s evals=%d viol=%d\n", p, i, hex.EncodeToString(gh[:6]), x1.LogHash(), x1.Cov.Evaluations, len(x1.Viol))
		}
	}
	if bad {
		return 1
	}
	return 0
}
