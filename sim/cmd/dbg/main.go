package main

import (
	"fmt"
	"os"

	h "lssim/harness"
	"lssim/oracle"
)

func main() {
	for i := 1; i < len(os.Args); i++ {
		sc, err := h.LoadScenario(os.Args[i])
		if err != nil {
			panic(err)
		}
		c := sc.Clone()
		x := h.NewExec(c, oracle.New(c.Property), h.NewCoverage())
		x.Execute()
		fmt.Println("run", i, "viol", len(x.Viol), "evals", x.Cov.Evaluations, x.LogHash())
		for _, v := range x.Viol {
			fmt.Println("   ", v.Fingerprint, v.Detail[:min(len(v.Detail), 200)])
		}
	}
}
