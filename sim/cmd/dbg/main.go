package main

import (
	"fmt"
	"os"

	h "lssim/harness"
	"lssim/model"
)

func main() {
	sc, err := h.LoadScenario(os.Args[1])
	if err != nil {
		panic(err)
	}
	s := h.NewStore(sc.World)
	for _, p := range s.Paths {
		for _, f := range p.Files {
			if f.Rendered == nil || f.Spec == nil {
				continue
			}
			m := model.Origins(p.Spec.Schema, f.Spec, f.Rendered, p.Spec.Funcs)
			fmt.Println(p.Path.Path, f.Name, "MUST", m.Must, "MAY", m.May)
		}
	}
}
