package scen

import (
	h "lssim/harness"
)

func init() {
	generators["C07"] = genC07
	generators["C15"] = genC15
	generators["C16"] = genC16
}

// modelProfile: generated configurations that parse cleanly (no half-typed
// fragments), with dependent bodies and extensions.
func (c *ctx) modelProfile() {
	p := c.baseProfile()
	p.HalfTyped = 0
	p.DepBodies = true
	p.Ext = c.chance(0.8)
	p.Terraformy = c.chance(0.7)
	p.ManyTargets = 0
	p.BigBody = false
	p.Paths = 1 + c.n(2)
	p.Violations = []float64{0, 0.05, 0.15, 0.3}[c.n(4)]
	p.ExprDepth = 1 + c.n(4)
	p.Functions = 3 + c.n(8)
	p.FilesPer = 1 + c.n(3)
	p.ManyBlocks = c.chance(0.15)
	c.makeWorld(p)
	for _, ps := range c.sc.World.Paths {
		if len(ps.Validators) == 0 {
			ps.Validators = []string{"UnexpectedAttribute", "UnexpectedBlock", "MissingRequiredAttribute", "DeprecatedAttribute", "DeprecatedBlock", "BlockLabelsLength", "MaxBlocks", "MinBlocks"}
		}
	}
}

func genC07(c *ctx) {
	c.modelProfile()
	c.add(&h.Event{K: "quiesce"})
	c.add(&h.Event{K: "check", Check: &h.Check{Key: c.key()}})
}

func genC15(c *ctx) {
	c.modelProfile()
	// permute the validator slice
	for _, ps := range c.sc.World.Paths {
		c.r.Shuffle(len(ps.Validators), func(i, j int) { ps.Validators[i], ps.Validators[j] = ps.Validators[j], ps.Validators[i] })
	}
	c.add(&h.Event{K: "quiesce"})
	c.add(&h.Event{K: "check", Check: &h.Check{Key: c.key()}})
}

func genC16(c *ctx) {
	c.modelProfile()
	c.add(&h.Event{K: "quiesce"})
	c.add(&h.Event{K: "check", Check: &h.Check{Key: c.key()}})
}

func init() {
	generators["C11"] = genC11
}

func genC11(c *ctx) {
	p := c.baseProfile()
	p.Paths = 2 + c.n(3)
	p.CrossPath = true
	p.Terraformy = c.chance(0.8)
	p.DepBodies, p.Ext = true, true
	p.HalfTyped = 0
	p.ExprDepth = 2 + c.n(3)
	p.ClonePath = c.chance(0.5)
	p.SiblingLang = c.chance(0.4)
	p.Builtins = c.chance(0.3)
	c.makeWorld(p)
	max := 60
	if c.thorough() {
		max = 400
	}
	chk := func() *h.Check { return &h.Check{Key: c.key(), Max: max} }
	c.add(&h.Event{K: "quiesce"})
	c.add(&h.Event{K: "check", Check: chk()})
	// stale sets: the relation quantifies over all collected sets
	c.eachFile(func(pi, fi int) {
		if c.chance(0.5) {
			c.staleWindow(pi, fi)
			c.add(&h.Event{K: "check", Check: chk()})
			c.add(&h.Event{K: "edit", Path: pi, File: c.rend[pi][fi].Name, Op: "full"})
		}
	})
	// reader faults on some paths, constant across each pair of lookups
	c.add(&h.Event{K: "quiesce"})
	np := len(c.sc.World.Paths)
	c.add(&h.Event{K: "fault", Fault: "reader_error", Arg: int64(c.n(np)), On: true})
	c.add(&h.Event{K: "check", Check: chk()})
	c.add(&h.Event{K: "fault", Fault: "paths_order", Arg: int64(c.r.Uint32()), On: true})
	c.add(&h.Event{K: "check", Check: chk()})
	// the stored origin lists in another order (sets merged from several jobs)
	c.add(&h.Event{K: "quiesce"})
	c.add(&h.Event{K: "fault", Fault: "origins_order", Arg: int64(c.r.Uint32()), On: true})
	c.add(&h.Event{K: "check", Check: chk()})
}

func init() {
	generators["C10"] = genC10
	generators["C09"] = genC10
}

func genC10(c *ctx) {
	c.modelProfile()
	c.add(&h.Event{K: "quiesce"})
	c.add(&h.Event{K: "check", Check: &h.Check{Key: c.key()}})
}

func init() {
	generators["C08"] = genC08
}

func genC08(c *ctx) {
	c.modelProfile()
	c.add(&h.Event{K: "quiesce"})
	c.add(&h.Event{K: "check", Check: &h.Check{Key: c.key()}})
}

func init() {
	generators["C19"] = genC19
}

func genC19(c *ctx) {
	p := c.baseProfile()
	p.JSONTwin = true
	p.HalfTyped = 0
	p.Layout = false
	p.Odd = false
	p.DepBodies = c.chance(0.7)
	p.Ext = c.chance(0.5)
	p.Terraformy = c.chance(0.6)
	p.Violations = []float64{0, 0.05}[c.n(2)]
	p.ManyTargets, p.BigBody = 0, false
	p.Paths = 1 + c.n(2)
	c.makeWorld(p)
	c.add(&h.Event{K: "quiesce"})
	c.add(&h.Event{K: "check", Check: &h.Check{Key: c.key()}})
}
