package scen

import (
	h "lssim/harness"
	"lssim/world"
)

func init() {
	generators["C04"] = genC04
	generators["C05"] = genC05
}

func genC04(c *ctx) {
	p := c.baseProfile()
	p.DepBodies, p.Ext = true, true
	p.Terraformy = c.chance(0.8)
	p.Hooks = c.chance(0.6)
	p.HalfTyped = []float64{0, 0.03, 0.1}[c.n(3)]
	p.Builtins = c.chance(0.3)
	c.makeWorld(p)
	stride := 9
	if c.thorough() {
		stride = 3
	}
	max := 50
	if c.thorough() {
		max = 400
	}
	chk := func() *h.Check {
		return &h.Check{Key: c.key(), Stride: stride, Max: max, Limit: []uint{0, 0, 2, 7}[c.n(4)]}
	}
	c.add(&h.Event{K: "quiesce"})
	c.add(&h.Event{K: "check", Check: chk()})
	c.eachFile(func(pi, fi int) {
		c.typing(pi, fi, 2, chk)
		c.tokenEdits(pi, fi, 2, chk)
	})
	// concurrent rounds with a snapshot at every context switch
	c.add(&h.Event{K: "quiesce"})
	nr := 3
	if c.thorough() {
		nr = 10
	}
	for i := 0; i < nr; i++ {
		c.add(&h.Event{K: "round", Round: c.round(2+c.n(3), nil)})
	}
	// error paths: faults on
	c.add(c.randomFault())
	c.add(c.randomFault())
	c.add(&h.Event{K: "check", Check: chk()})
	c.add(&h.Event{K: "quiesce"})
}

// randomQuery draws a query of any kind at an arbitrary position.
func (c *ctx) randomQuery() h.Query {
	pi := c.n(len(c.rend))
	fi := c.n(len(c.rend[pi]))
	r := c.rend[pi][fi]
	kinds := []string{"completion", "completion", "completion", "hover", "hover", "signature", "tokens", "symbols_file", "symbols_ws", "links",
		"validate", "validate_file", "targets", "origins", "writeonly", "goto_def", "find_refs", "lenses"}
	q := h.Query{Kind: kinds[c.n(len(kinds))], Path: pi, File: r.Name}
	if h.Positional(q.Kind) {
		b := tokenBounds(r.Name, r.Text)
		if ns := midNamespaced(r.Text); len(ns) > 0 && c.chance(0.5) {
			q.Kind = "completion"
			q.Off = ns[c.n(len(ns))]
		} else if len(b) > 0 && c.chance(0.7) {
			q.Off = b[c.n(len(b))]
		} else {
			q.Off = c.n(len(r.Text) + 1)
		}
	}
	if q.Kind == "completion" {
		q.Prefill = c.chance(0.4)
	}
	if q.Kind == "symbols_ws" {
		q.Arg = []string{"", "a", "na"}[c.n(3)]
	}
	q.Order = h.Order{P: []string{"asc", "desc", "rotate", "shuffle", "pinfirst", "pinlast"}[c.n(6)], Key: c.key()}
	return q
}

// round draws a concurrent round of nt tasks.
func (c *ctx) round(nt int, hot *h.Query) *h.Round {
	rd := &h.Round{Reverse: c.chance(0.5)}
	if hot == nil && c.chance(0.6) {
		q := c.randomQuery()
		hot = &q
	}
	for t := 0; t < nt; t++ {
		nq := 1 + c.n(3)
		var qs []h.Query
		for k := 0; k < nq; k++ {
			if hot != nil && c.chance(0.5) {
				q := *hot
				q.Order = h.Order{P: "shuffle", Key: c.key()}
				qs = append(qs, q)
			} else {
				qs = append(qs, c.randomQuery())
			}
		}
		rd.Tasks = append(rd.Tasks, qs)
	}
	ns := 4 + c.n(20)
	for k := 0; k < ns; k++ {
		switch c.n(4) {
		case 0:
			rd.Switch = append(rd.Switch, 1+c.n(5))
		case 1:
			rd.Switch = append(rd.Switch, 1+c.n(60))
		case 2:
			rd.Switch = append(rd.Switch, 1+c.n(1500))
		default:
			rd.Switch = append(rd.Switch, 0) // run to completion
		}
		rd.Pick = append(rd.Pick, c.n(64))
	}
	return rd
}

func genC05(c *ctx) {
	p := c.baseProfile()
	p.DepBodies, p.Ext = true, true
	p.Terraformy = c.chance(0.8)
	p.Functions = 3 + c.n(8)
	p.HalfTyped = []float64{0, 0.05, 0.15}[c.n(3)]
	p.Hooks = c.chance(0.6)
	c.makeWorld(p)
	c.add(&h.Event{K: "quiesce"})
	rounds := 4
	if c.thorough() {
		rounds = 12
	}
	for i := 0; i < rounds; i++ {
		var hotQ *h.Query
		if c.chance(0.4) {
			// a half-typed state; the cursor sits at the end of what was typed
			pi := c.n(len(c.rend))
			fi := c.n(len(c.rend[pi]))
			r := c.rend[pi][fi]
			b := tokenBounds(r.Name, r.Text)
			if hc := hotCuts(r.Text); len(hc) > 0 && c.chance(0.6) {
				b = hc
			}
			cut := len(r.Text)
			if len(b) > 0 {
				cut = b[c.n(len(b))]
			}
			c.add(&h.Event{K: "edit", Path: pi, File: r.Name, Op: "full"})
			c.add(&h.Event{K: "edit", Path: pi, File: r.Name, Op: "prefix", N: cut})
			hotQ = &h.Query{Kind: "completion", Path: pi, File: r.Name, Off: cut}
		}
		nt := 2 + c.n(5)
		if c.chance(0.1) {
			nt = 16
		}
		// completion inside the value of an attribute with completion hooks,
		// sometimes while the hooks fail: the decoder context (hook registry) is
		// shared by every request
		hookFault := false
		if hv := c.hookValues(); hotQ == nil && len(hv) > 0 && c.chance(0.5) {
			q := hv[c.n(len(hv))]
			hotQ = &q
			if c.chance(0.5) {
				hookFault = true
				c.add(&h.Event{K: "fault", Fault: []string{"hook_error", "hook_partial"}[c.n(2)], On: true})
			}
		}
		rd := &h.Round{Reverse: c.chance(0.5)}
		// bias: several tasks hammer the same position (conflicts need the same memory)
		hot := hotQ
		if hot == nil && c.chance(0.6) {
			q := c.randomQuery()
			hot = &q
		}
		for t := 0; t < nt; t++ {
			nq := 1 + c.n(3)
			var qs []h.Query
			for k := 0; k < nq; k++ {
				if hot != nil && c.chance(0.5) {
					q := *hot
					q.Order = h.Order{P: "shuffle", Key: c.key()}
					qs = append(qs, q)
				} else {
					qs = append(qs, c.randomQuery())
				}
			}
			rd.Tasks = append(rd.Tasks, qs)
		}
		ns := 4 + c.n(20)
		for k := 0; k < ns; k++ {
			switch c.n(4) {
			case 0:
				rd.Switch = append(rd.Switch, 1+c.n(5))
			case 1:
				rd.Switch = append(rd.Switch, 1+c.n(60))
			case 2:
				rd.Switch = append(rd.Switch, 1+c.n(1500))
			default:
				rd.Switch = append(rd.Switch, 0) // run to completion
			}
			rd.Pick = append(rd.Pick, c.n(64))
		}
		c.add(&h.Event{K: "round", Round: rd})
		if hookFault {
			c.add(&h.Event{K: "fault", Fault: "hook_error", On: false})
		}
		if c.chance(0.25) {
			c.add(&h.Event{K: "quiesce"})
		}
	}
}

// hookValues: completion queries inside the written values of attributes
// whose schema names completion hooks.
func (c *ctx) hookValues() []h.Query {
	var out []h.Query
	for pi, ps := range c.sc.World.Paths {
		names := map[string]bool{}
		var walk func(b *world.BodySpec, d int)
		walk = func(b *world.BodySpec, d int) {
			if b == nil || d > 12 {
				return
			}
			for _, a := range b.Attrs {
				if len(a.Hooks) > 0 {
					names[a.Name] = true
				}
			}
			for _, bl := range b.Blocks {
				walk(bl.Body, d+1)
				for _, dp := range bl.Dep {
					walk(dp.Body, d+1)
				}
			}
		}
		walk(ps.Schema, 0)
		if len(names) == 0 || pi >= len(c.rend) {
			continue
		}
		for _, r := range c.rend[pi] {
			for _, n := range r.Nodes {
				if n != nil && n.Kind == "attr" && n.Item != nil && n.Item.Attr != nil && names[n.Item.Attr.Name] && n.Value.End > n.Value.Start {
					off := n.Value.Start + 1
					if off > n.Value.End {
						off = n.Value.End
					}
					out = append(out, h.Query{Kind: "completion", Path: pi, File: r.Name, Off: off})
				}
			}
		}
	}
	return out
}

// midNamespaced returns the offsets strictly inside maximal runs of function
// name characters that contain "::" (half-typed namespaced function names).
func midNamespaced(text []byte) []int {
	var out []int
	isName := func(b byte) bool {
		return b == ':' || b == '_' || b == '-' || b >= 'a' && b <= 'z' || b >= 'A' && b <= 'Z' || b >= '0' && b <= '9'
	}
	for i := 0; i < len(text); {
		if !isName(text[i]) {
			i++
			continue
		}
		j := i
		hasNS := false
		for j < len(text) && isName(text[j]) {
			if text[j] == ':' && j+1 < len(text) && text[j+1] == ':' {
				hasNS = true
			}
			j++
		}
		if hasNS {
			for k := i + 1; k < j; k++ {
				out = append(out, k)
			}
		}
		i = j
	}
	return out
}
