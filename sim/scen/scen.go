// Package scen generates scenarios: gen(seed, property, tier, index) is a pure
// function producing the world model and the explicit event list.
package scen

import (
	"hash/fnv"
	"math/rand/v2"

	"github.com/hashicorp/hcl/v2"
	"github.com/hashicorp/hcl/v2/hclsyntax"

	h "lssim/harness"
	"lssim/world"
)

type ctx struct {
	r    *rand.Rand
	prop string
	tier string
	sc   *h.Scenario
	rend [][]*world.Rendered // [path][file]
}

func (c *ctx) n(k int) int {
	if k <= 0 {
		return 0
	}
	return c.r.IntN(k)
}
func (c *ctx) chance(p float64) bool { return c.r.Float64() < p }
func (c *ctx) thorough() bool        { return c.tier == "thorough" }
func (c *ctx) add(ev *h.Event)       { c.sc.Events = append(c.sc.Events, ev) }
func (c *ctx) key() uint64           { return c.r.Uint64() }

func streamOf(prop string, index int) uint64 {
	f := fnv.New64a()
	f.Write([]byte(prop))
	return f.Sum64() ^ (uint64(index)+1)*0x9e3779b97f4a7c15
}

// baseProfile draws a swarm-style profile.
func (c *ctx) baseProfile() world.Profile {
	p := world.Profile{
		Paths:      1 + c.n(2),
		FilesPer:   1 + c.n(2),
		MaxDepth:   1 + c.n(3),
		MaxAttrs:   2 + c.n(6),
		Hooks:      c.chance(0.4),
		Multibyte:  c.chance(0.4),
		Layout:     c.chance(0.6),
		Violations: []float64{0, 0.05, 0.15, 0.3}[c.n(4)],
		Terraformy: c.chance(0.6),
		CrossPath:  c.chance(0.5),
		Functions:  c.n(11),
		ExprDepth:  1 + c.n(4),
		DepBodies:  c.chance(0.8),
		Ext:        c.chance(0.7),
		Odd:        c.chance(0.35),
	}
	if c.chance(0.25) {
		p.BigBody = true
	}
	if c.chance(0.15) {
		p.ManyTargets = []int{5, 12, 130}[c.n(3)]
	}
	return p
}

// Generate builds scenario number index of a property/tier for a seed.
func Generate(prop, tier string, seed uint64, index int) *h.Scenario {
	c := &ctx{r: rand.New(rand.NewPCG(seed, streamOf(prop, index))), prop: prop, tier: tier}
	c.sc = &h.Scenario{V: 1, Property: prop, Tier: tier, Seed: seed, Index: index}
	f, ok := generators[prop]
	if !ok {
		f = genGeneric
	}
	f(c)
	return c.sc
}

var generators = map[string]func(*ctx){}

func (c *ctx) makeWorld(p world.Profile) {
	g := world.NewGen(c.r.Uint64(), c.r.Uint64(), p)
	c.sc.World = g.World()
	c.render()
}

func (c *ctx) render() {
	c.rend = nil
	for _, p := range c.sc.World.Paths {
		var rs []*world.Rendered
		for _, f := range p.Files {
			rs = append(rs, world.Render(f))
		}
		c.rend = append(c.rend, rs)
	}
}

// tokenBounds returns the lexer token boundaries of a text.
func tokenBounds(name string, text []byte) []int {
	toks, _ := hclsyntax.LexConfig(text, name, hcl.InitialPos)
	seen := map[int]bool{}
	var out []int
	for _, t := range toks {
		for _, o := range []int{t.Range.Start.Byte, t.Range.End.Byte} {
			if o >= 0 && o <= len(text) && !seen[o] {
				seen[o] = true
				out = append(out, o)
			}
		}
	}
	return out
}

// hotCuts returns offsets right after punctuation where half-typed input is
// interesting: "::", ".", "=", "[", "(", "{", ",", quote, "${", ":" and the
// middle of identifiers that contain "::".
func hotCuts(text []byte) []int {
	var out []int
	for i := 0; i < len(text); i++ {
		switch text[i] {
		case '.', '=', '[', '(', '{', ',', '"', '?':
			out = append(out, i+1)
		case ':':
			out = append(out, i+1)
			if i+1 < len(text) && text[i+1] == ':' {
				// also a couple of characters into the next name segment
				out = append(out, i+2, i+3, i+4)
			}
		case '$':
			if i+1 < len(text) && text[i+1] == '{' {
				out = append(out, i+2)
			}
		}
	}
	var ok []int
	for _, o := range out {
		if o <= len(text) {
			ok = append(ok, o)
		}
	}
	return ok
}

type tok struct{ s, e int }

func tokens(name string, text []byte) []tok {
	toks, _ := hclsyntax.LexConfig(text, name, hcl.InitialPos)
	var out []tok
	for _, t := range toks {
		if t.Range.End.Byte > t.Range.Start.Byte {
			out = append(out, tok{t.Range.Start.Byte, t.Range.End.Byte})
		}
	}
	return out
}

// typing emits prefix edits of one file (a typing history), each followed by a check.
func (c *ctx) typing(pi, fi, count int, chk func() *h.Check) {
	r := c.rend[pi][fi]
	n := len(r.Text)
	if n == 0 {
		return
	}
	bounds := tokenBounds(r.Name, r.Text)
	for i := 0; i < count; i++ {
		var cut int
		hot := hotCuts(r.Text)
		switch c.n(4) {
		case 0:
			cut = c.n(n + 1)
		case 1:
			if len(hot) > 0 {
				cut = hot[c.n(len(hot))]
				break
			}
			fallthrough
		default:
			if len(bounds) > 0 {
				cut = bounds[c.n(len(bounds))]
				if c.chance(0.3) && cut > 0 {
					cut-- // inside the token
				}
			}
		}
		c.add(&h.Event{K: "edit", Path: pi, File: r.Name, Op: "prefix", N: cut})
		c.add(&h.Event{K: "check", Path: pi, File: r.Name, Check: chk()})
	}
	c.add(&h.Event{K: "edit", Path: pi, File: r.Name, Op: "full"})
}

// tokenEdits emits single-token edits of the full text, each followed by a
// check and then restored.
func (c *ctx) tokenEdits(pi, fi, count int, chk func() *h.Check) {
	r := c.rend[pi][fi]
	toks := tokens(r.Name, r.Text)
	if len(toks) == 0 {
		return
	}
	for i := 0; i < count; i++ {
		t := toks[c.n(len(toks))]
		ev := &h.Event{K: "edit", Path: pi, File: r.Name, Op: "splice", Off: t.s}
		switch c.n(6) {
		case 0: // delete token
			ev.Del = t.e - t.s
		case 1: // duplicate token
			ev.Ins = string(r.Text[t.s:t.e])
		case 2: // replace by another token
			o := toks[c.n(len(toks))]
			ev.Del = t.e - t.s
			ev.Ins = string(r.Text[o.s:o.e])
		case 3: // truncate token
			ev.Off = t.s + 1
			if ev.Off > t.e {
				ev.Off = t.e
			}
			ev.Del = t.e - ev.Off
		case 4: // insert punctuation
			ev.Ins = []string{".", "[", "{", "\"", "${", "(", ",", "=", " ", "\n", "}", "]", ")", "::", "?", ":"}[c.n(16)]
			ev.Off = t.e
		default: // delete to end of line
			e := t.s
			for e < len(r.Text) && r.Text[e] != '\n' {
				e++
			}
			ev.Del = e - t.s
		}
		c.add(&h.Event{K: "edit", Path: pi, File: r.Name, Op: "full"})
		c.add(ev)
		c.add(&h.Event{K: "check", Path: pi, File: r.Name, Check: chk()})
	}
	c.add(&h.Event{K: "edit", Path: pi, File: r.Name, Op: "full"})
}

func (c *ctx) eachFile(fn func(pi, fi int)) {
	for pi := range c.rend {
		for fi := range c.rend[pi] {
			fn(pi, fi)
		}
	}
}

// staleWindow: start collection jobs, edit, finish the jobs late (or drop them).
func (c *ctx) staleWindow(pi, fi int) {
	r := c.rend[pi][fi]
	c.add(&h.Event{K: "job", Path: pi, Kind: "targets", Phase: "start"})
	c.add(&h.Event{K: "job", Path: pi, Kind: "origins", Phase: "start"})
	n := len(r.Text)
	c.add(&h.Event{K: "edit", Path: pi, File: r.Name, Op: "prefix", N: c.n(n + 1)})
	if c.chance(0.8) {
		c.add(&h.Event{K: "job", Path: pi, Kind: "targets", Phase: "finish"})
	} else {
		c.add(&h.Event{K: "job", Path: pi, Kind: "targets", Phase: "drop"})
	}
	if c.chance(0.8) {
		c.add(&h.Event{K: "job", Path: pi, Kind: "origins", Phase: "finish"})
	}
}

func (c *ctx) randomFault() *h.Event {
	np := len(c.sc.World.Paths)
	switch c.n(8) {
	case 0:
		return &h.Event{K: "fault", Fault: "reader_error", Arg: int64(c.n(np)), On: true}
	case 1:
		return &h.Event{K: "fault", Fault: "path_unlisted", Arg: int64(c.n(np)), On: true}
	case 2:
		return &h.Event{K: "fault", Fault: "paths_order", Arg: int64(c.r.Uint32()), On: true}
	case 3:
		return &h.Event{K: "fault", Fault: "hook_" + []string{"error", "partial", "empty", "overflow"}[c.n(4)], On: true}
	case 4:
		return &h.Event{K: "fault", Fault: "lens_error", On: true}
	case 5:
		return &h.Event{K: "fault", Fault: "schema_swap", Path: c.n(np)}
	default:
		return &h.Event{K: "fault", Fault: "reader_error", Arg: int64(c.n(np)), On: c.chance(0.5)}
	}
}

// genGeneric: quiescent full-text states with one check each (used by the
// structural oracles), plus a few typing prefixes.
func genGeneric(c *ctx) {
	c.makeWorld(c.baseProfile())
	c.add(&h.Event{K: "quiesce"})
	c.add(&h.Event{K: "check", Check: &h.Check{Key: c.key()}})
}

func init() {
	generators["C01"] = genC01
	generators["C03"] = genC03
}

func genC01(c *ctx) {
	p := c.baseProfile()
	p.Odd = c.chance(0.6)
	p.HalfTyped = []float64{0, 0.03, 0.1}[c.n(3)]
	p.Builtins = c.chance(0.4)
	if c.chance(0.25) {
		// a workspace with HCL JSON files among the others
		p.JSONTwin, p.JSONFiles, p.HalfTyped, p.Odd, p.Layout = true, true, 0, false, false
	}
	c.makeWorld(p)
	stride := 3
	if c.thorough() {
		stride = 1
	}
	chk := func() *h.Check {
		return &h.Check{Key: c.key(), Stride: stride, Limit: []uint{0, 0, 1, 2, 3, 7}[c.n(6)]}
	}
	faulty := c.chance(0.4)
	// full text, nothing collected yet
	c.add(&h.Event{K: "check", Check: chk()})
	// full text, quiescent
	c.add(&h.Event{K: "quiesce"})
	c.add(&h.Event{K: "check", Check: chk()})
	nPrefix, nTok := 6, 5
	if c.thorough() {
		nPrefix, nTok = 14, 10
	}
	c.eachFile(func(pi, fi int) {
		if faulty && c.chance(0.5) {
			c.staleWindow(pi, fi)
			c.add(&h.Event{K: "check", Check: chk()})
		}
		if faulty && c.chance(0.5) {
			c.add(c.randomFault())
		}
		c.typing(pi, fi, nPrefix, chk)
		c.tokenEdits(pi, fi, nTok, chk)
		if faulty {
			c.add(&h.Event{K: "quiesce"})
		}
	})
}

func genC03(c *ctx) {
	p := c.baseProfile()
	p.BigBody = c.chance(0.5)
	p.MaxAttrs = 3 + c.n(12)
	p.HalfTyped = []float64{0, 0, 0.05}[c.n(3)]
	c.makeWorld(p)
	stride := 11
	if c.thorough() {
		stride = 4
	}
	max := 40
	if c.thorough() {
		max = 300
	}
	chk := func() *h.Check { return &h.Check{Key: c.key(), Stride: stride, Max: max} }
	c.add(&h.Event{K: "quiesce"})
	c.add(&h.Event{K: "check", Check: chk()})
	c.eachFile(func(pi, fi int) {
		c.typing(pi, fi, 2, chk)
		if c.chance(0.5) {
			c.staleWindow(pi, fi)
			c.add(&h.Event{K: "check", Check: chk()})
			c.add(&h.Event{K: "edit", Path: pi, File: c.rend[pi][fi].Name, Op: "full"})
		}
	})
}
