package scen

import (
	h "lssim/harness"
	"lssim/world"
)

func init() {
	generators["C02"] = genC02
	generators["C06"] = genC06
	generators["C12"] = genC12
	generators["C13"] = genC13
	generators["C14"] = genC14
	generators["C18"] = genC18
}

// quiescentStates: the full text, typing prefixes and token edits, each
// followed by "quiesce" (the indexer catches up) and a check.
func (c *ctx) quiescentStates(nPrefix, nTok int, chk func() *h.Check) {
	c.add(&h.Event{K: "quiesce"})
	c.add(&h.Event{K: "check", Check: chk()})
	qchk := func() *h.Check {
		// the check is preceded by a quiesce event
		c.add(&h.Event{K: "quiesce"})
		return chk()
	}
	c.eachFile(func(pi, fi int) {
		c.typing(pi, fi, nPrefix, qchk)
		c.tokenEdits(pi, fi, nTok, qchk)
		c.add(&h.Event{K: "quiesce"})
	})
}

func genC02(c *ctx) {
	p := c.baseProfile()
	p.Multibyte = c.chance(0.7)
	p.Layout = c.chance(0.8)
	p.CrossPath = true
	p.Paths = 1 + c.n(3)
	p.HalfTyped = []float64{0, 0.03, 0.08}[c.n(3)]
	p.DistinctNames = c.chance(0.5)
	p.Builtins = c.chance(0.3)
	p.Terraformy = c.chance(0.5)
	c.makeWorld(p)
	stride := 5
	if c.thorough() {
		stride = 2
	}
	chk := func() *h.Check { return &h.Check{Key: c.key(), Stride: stride} }
	n := 3
	if c.thorough() {
		n = 8
	}
	c.quiescentStates(n, n, chk)
	// sets collected from an older text: a reference shortened by a few
	// characters (or the file cut somewhere) after the indexer took its snapshot;
	// everything a request derives from the current syntax tree stays valid
	c.eachFile(func(pi, fi int) {
		if !c.chance(0.6) {
			return
		}
		r := c.rend[pi][fi]
		c.add(&h.Event{K: "quiesce"})
		c.add(&h.Event{K: "edit", Path: pi, File: r.Name, Op: "full"})
		c.add(&h.Event{K: "quiesce"})
		var refs []*world.Node
		for _, n := range r.Nodes {
			if n != nil && n.Kind == "expr" && n.Expr != nil && n.Expr.K == "ref" && n.Range.End-n.Range.Start > 5 {
				refs = append(refs, n)
			}
		}
		if len(refs) > 0 && c.chance(0.7) {
			n := refs[c.n(len(refs))]
			c.add(&h.Event{K: "job", Path: pi, Kind: "targets", Phase: "start"})
			c.add(&h.Event{K: "job", Path: pi, Kind: "origins", Phase: "start"})
			c.add(&h.Event{K: "edit", Path: pi, File: r.Name, Op: "splice", Off: n.Range.End - 3, Del: 3})
			c.add(&h.Event{K: "job", Path: pi, Kind: "targets", Phase: "finish"})
			c.add(&h.Event{K: "job", Path: pi, Kind: "origins", Phase: "finish"})
		} else {
			c.staleWindow(pi, fi)
		}
		c.add(&h.Event{K: "check", Path: pi, File: r.Name, Check: &h.Check{Key: c.key(), Stride: 2, Kinds: []string{"hover", "completion", "tokens", "symbols_file", "links", "validate_file"}}})
		c.add(&h.Event{K: "edit", Path: pi, File: r.Name, Op: "full"})
	})
	// cross-path lookups while one of the paths cannot be read
	if np := len(c.sc.World.Paths); np > 1 {
		c.add(&h.Event{K: "quiesce"})
		c.add(&h.Event{K: "fault", Fault: "reader_error", Arg: int64(c.n(np)), On: true})
		c.add(&h.Event{K: "check", Check: &h.Check{Key: c.key(), Stride: 1, Kinds: []string{"goto_def", "find_refs", "links", "symbols_ws"}}})
		c.add(&h.Event{K: "quiesce"})
	}
}

func genC06(c *ctx) {
	p := c.baseProfile()
	p.Hooks = c.chance(0.6)
	p.ManyTargets = []int{0, 5, 12, 130}[c.n(4)]
	p.MaxAttrs = 2 + c.n(10)
	p.HalfTyped = []float64{0, 0.03}[c.n(2)]
	c.makeWorld(p)
	stride := 2
	if c.thorough() {
		stride = 1
	}
	chk := func() *h.Check {
		return &h.Check{Key: c.key(), Stride: stride, Limit: []uint{1, 2, 3, 7, 100, 100}[c.n(6)]}
	}
	n := 3
	if c.thorough() {
		n = 8
	}
	c.quiescentStates(n, 2, chk)
	// the hooks answer with nothing / with an error: a list that hooks may
	// still extend is not complete
	if len(c.sc.World.Hooks) > 0 {
		for _, mode := range []string{"hook_empty", "hook_error"} {
			c.add(&h.Event{K: "quiesce"})
			c.eachFile(func(pi, fi int) {
				c.add(&h.Event{K: "edit", Path: pi, File: c.rend[pi][fi].Name, Op: "full"})
			})
			c.add(&h.Event{K: "quiesce"})
			c.add(&h.Event{K: "fault", Fault: mode, On: true})
			c.add(&h.Event{K: "check", Check: &h.Check{Key: c.key(), Stride: 3, Kinds: []string{"completion"}}})
			c.add(&h.Event{K: "fault", Fault: mode, On: false})
		}
	}
}

func genC12(c *ctx) {
	p := c.baseProfile()
	p.Violations = []float64{0, 0.05}[c.n(2)]
	c.makeWorld(p)
	chk := func() *h.Check { return &h.Check{Key: c.key(), Stride: 1} }
	n := 2
	if c.thorough() {
		n = 6
	}
	c.quiescentStates(n, n, chk)
}

func genC13(c *ctx) {
	if c.chance(0.5) {
		// exactness on generated configurations
		c.modelProfile()
		c.add(&h.Event{K: "quiesce"})
		c.add(&h.Event{K: "check", Check: &h.Check{Key: c.key()}})
		return
	}
	p := c.baseProfile()
	p.HalfTyped = []float64{0, 0.05, 0.15}[c.n(3)]
	p.ExprDepth = 2 + c.n(3)
	c.makeWorld(p)
	chk := func() *h.Check { return &h.Check{Key: c.key()} }
	c.add(&h.Event{K: "check", Check: chk()})
	c.add(&h.Event{K: "quiesce"})
	c.add(&h.Event{K: "check", Check: chk()})
	n := 12
	if c.thorough() {
		n = 40
	}
	c.eachFile(func(pi, fi int) {
		if c.chance(0.4) {
			c.staleWindow(pi, fi)
			c.add(&h.Event{K: "check", Check: chk()})
		}
		c.typing(pi, fi, n, chk)
		c.tokenEdits(pi, fi, n, chk)
	})
}

func genC14(c *ctx) {
	p := c.baseProfile()
	p.Paths = 1 + c.n(4)
	p.FilesPer = 1 + c.n(3)
	p.NoSchema = c.chance(0.5)
	p.ExprDepth = 2 + c.n(3)
	if !p.NoSchema && c.chance(0.5) {
		// the fragment both syntaxes express: JSON outlines need a schema
		p.JSONTwin, p.HalfTyped, p.Odd, p.Layout = true, 0, false, false
	}
	c.makeWorld(p)
	args := [][]string{{""}, {"", "a"}, {"na", "", "zzz-miss"}, {"\"", "aws", ""}, {"a", "aw", "aws_"}, {"\" \"", " ", "e \""}, {"", "r", "re"}}[c.n(7)]
	chk := func() *h.Check { return &h.Check{Key: c.key(), Args: args} }
	c.add(&h.Event{K: "quiesce"})
	c.add(&h.Event{K: "check", Check: chk()})
	n := 2
	if c.thorough() {
		n = 6
	}
	c.eachFile(func(pi, fi int) {
		c.typing(pi, fi, n, chk)
		c.tokenEdits(pi, fi, n, chk)
	})
}

func genC18(c *ctx) {
	p := c.baseProfile()
	p.Multibyte = c.chance(0.5)
	p.Layout = c.chance(0.5)
	p.Violations = []float64{0, 0.05, 0.15}[c.n(3)]
	p.Paths = 1 // positions are mapped by file name
	p.Typing = c.chance(0.4)
	c.makeWorld(p)
	stride := 3
	if c.thorough() {
		stride = 1
	}
	c.add(&h.Event{K: "quiesce"})
	n := 2
	if c.thorough() {
		n = 5
	}
	c.eachFile(func(pi, fi int) {
		r := c.rend[pi][fi]
		for i := 0; i < n; i++ {
			var lines []string
			nl := 1 + c.n(5)
			for k := 0; k < nl; k++ {
				lines = append(lines, []string{"", "", "# comment", "// slashes", "# kommentár ✓ 日本", "#", "  ", "\t# indented"}[c.n(8)])
			}
			c.add(&h.Event{K: "check", Path: pi, File: r.Name, BeforeItem: c.n(len(r.InsertPoints) + 1), Check: &h.Check{Key: c.key(), Stride: stride, Args: lines}})
		}
	})
}
