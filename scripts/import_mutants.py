#!/usr/bin/env python3
"""import_mutants.py <ID> [srcroot=/tmp/mut] [offset=0] : copy <srcroot>/<ID>/MUTANT/{patch,demo,notes}<k> into /verif/seeded/<ID>-<k+offset>/ with a meta.json skeleton"""
import sys, os, re, json, shutil
pid = sys.argv[1]
root = sys.argv[2] if len(sys.argv) > 2 else "/tmp/mut"
off = int(sys.argv[3]) if len(sys.argv) > 3 else 0
src = f"{root}/{pid}/MUTANT"
for k in (1, 2):
    p = f"{src}/patch{k}.diff"
    if not os.path.exists(p):
        continue
    dst = f"/verif/seeded/{pid}-{k+off}"
    os.makedirs(dst, exist_ok=True)
    shutil.copy(p, f"{dst}/patch.diff")
    demo = open(f"{src}/demo{k}_test.go").read()
    open(f"{dst}/demo_test.go", "w").write(demo)
    notes = open(f"{src}/notes{k}.md").read() if os.path.exists(f"{src}/notes{k}.md") else ""
    open(f"{dst}/notes.md", "w").write(notes)
    m = re.search(r'^package (\w+)', demo, re.M)
    pkg = m.group(1) if m else "decoder"
    demo_dir = "decoder"
    for cand in ("schema", "reference", "validator", "lang"):
        if pkg in (cand, cand + "_test"):
            demo_dir = cand
    if "schemahelper" in pkg: demo_dir = "decoder/internal/schemahelper"
    if "walker" in pkg: demo_dir = "decoder/internal/walker"
    meta = {"property": pid, "origin": "independent sub-agent given only the property text and a scratch worktree", "demo_dir": demo_dir,
            "needs": notes.strip().split("\n")[0][:300], "files_changed": sorted(set(re.findall(r'^\+\+\+ b/(\S+)', open(p).read(), re.M)))}
    json.dump(meta, open(f"{dst}/meta.json", "w"), indent=1)
    print(dst, meta["files_changed"], demo_dir)
