#!/usr/bin/env python3
"""Regenerates MANIFEST.json from the table below (single source of truth for the interface)."""
import json, subprocess, sys
CLAIMED = {
 "C01": ("exploration", "§4 C01", "deterministic simulation: edit-history/fault/map-order search, recover + tick-budget oracle",
   "Seeded search over buffer edit histories (every sampled prefix and single-token edit of generated configurations), reader/hook/staleness faults and map-order schedules; every public query entry point runs at the visited cursor offsets inside a simulator task; a recovered panic, a tick-budget overrun or a worker process killed by a fatal error is a violation. Exploration, not proof: totality over an infinite input space can only be sampled; violations replay exactly from the minimised scenario file.",
   "Trusts the stub language server as a model of a deployment and the generator's reach (schemas/config shapes listed in DESIGN.md §3); map order is owned only inside hcl-lang's sources."),
 "C03": ("exploration", "§4 C03", "deterministic simulation: differential execution under controlled map-iteration schedules and query histories",
   "Each query is executed under the canonical map order on a fresh decoder, then under 8 other map-order schedules (desc, rotate, shuffle, pin), after a sequence of other queries on a long-lived decoder, and again on a fresh decoder; canonical results (element order kept, diagnostics as multisets) must be identical. The map-order seam turns 'some runtime order breaks it' into a deterministic, replayable failure.",
   "Map ranges inside hcl/v2, go-cty and the standard library keep the runtime's order (they sort where it matters); only hcl-lang's 59 range-over-map sites are scheduled."),
}
NA = {
 "C17": "Copy() is a pure function of one value: no map-order dependence in its result, no reader, hook, interleaving, fault or history is involved, and half the statement quantifies over future struct fields (programs). Not a simulation target; its user-visible consequences are exercised under C01 (Copy panics) and C04/C05 (aliasing through which a query writes).",
 "C20": "SignatureAtPos is a pure function of (file bytes, position, function map): no map range, reader, hook or shared mutable state on its path; a half-typed call is an input, not a fault. Not a simulation target; it still runs as one of the queries under C01/C03/C05/C18.",
}
PENDING = "check not built yet in this session (planned per DESIGN.md §4); will be claimed once its oracle exists"
props = [json.loads(l)["id"] for l in open("/verif/properties.jsonl")]
checks = []
for pid in props:
    if pid in CLAIMED:
        level, ref, tech, text, note = CLAIMED[pid]
        checks.append({
            "property_id": pid,
            "quick_cmd": f"scripts/check.sh {pid} quick",
            "thorough_cmd": f"scripts/check.sh {pid} thorough",
            "evidence_file": f"/verif/evidence/{pid}.json",
            "replay_cmd_template": "scripts/check.sh replay {path}",
            "engine": "lssim",
            "level_claimed": {"category": level, "text": text, "design_ref": ref},
            "level_note": note,
            "technique": tech,
        })
na = []
for pid in props:
    if pid in CLAIMED: continue
    na.append({"property_id": pid, "reason": NA.get(pid, PENDING)})
m = {
 "version": 1,
 "setup_cmd": "scripts/setup.sh",
 "hooks": {
   "guard": "verif",
   "enable": "no hook is committed to /repo: every check copies /repo's working tree to a scratch directory, instruments it with tools/simrewrite (map-order seam simrt.MapSeq, simrt.Tick, package-variable registration in generated //go:build verif files) and builds the simulator against it with -tags verif",
   "baseline_off_cmd": "cd /repo && go test -vet=off -count=1 ./...",
   "source_commits": [],
   "add_only": True,
 },
 "engines": [{"name": "lssim", "path": "/verif/sim", "serves_properties": sorted(CLAIMED), "kind_free_text": "deterministic simulator: stub language server hosting the real hcl-lang, seeded scenario generator, map-order scheduler, cooperative task scheduler with race oracle, fault-injecting PathReader/hooks/jobs, scenario replay and delta-debugging minimiser"}],
 "checks": checks,
 "not_applicable": na,
 "notes": "exit 0 = held on everything explored; exit 1 + 'VIOLATION property=<id> replay=<path>'; exit 2 = infrastructure trouble (never a VIOLATION line). KNOWN_FINDINGS.json lists recorded findings (printed as KNOWN-FINDING, exit 0) and fixed entries.",
}
json.dump(m, open("/verif/MANIFEST.json", "w"), indent=1)
print("MANIFEST.json:", len(checks), "checks,", len(na), "not applicable")
