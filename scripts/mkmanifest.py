#!/usr/bin/env python3
"""Regenerates MANIFEST.json from the table below (single source of truth for the interface)."""
import json, subprocess, sys
CLAIMED = {
 "C01": ("exploration", "§4 C01", "deterministic simulation: edit-history/fault/map-order search, recover + tick-budget oracle",
   "Seeded search over buffer edit histories (sampled prefixes and single-token edits of generated configurations, half-typed fragments), reader/hook/staleness faults and map-order schedules; every public query entry point runs at the visited cursor offsets inside a simulator task; a recovered panic, a tick-budget overrun or a worker process killed by a fatal error is a violation. Exploration, not proof: totality over an infinite input space can only be sampled; violations replay exactly from the minimised scenario file.",
   "Trusts the stub language server as a model of a deployment and the generator's reach (schemas/config shapes listed in DESIGN.md §3); map order is owned only inside hcl-lang's sources."),
 "C02": ("exploration", "§4 C02", "deterministic simulation supplying states (typed/edited buffers after the indexer caught up, multi-path worlds); per-result range invariant by reflection walk",
   "A reflection walk finds every hcl.Range in every result of every query at states whose collected sets are current (with and without a reader fault on another path); each must name a file of the path it is reported for, satisfy 0<=start<=end<=len and carry the independently recomputed line/column (grapheme clusters) of its byte offsets. Besides the offset sweep, go-to-definition is asked on every stored origin and find-references on every stored definition; worlds use shared or distinct file names across paths. The simulator contributes the states, faults and the multi-path attribution; the invariant itself is a per-result monitor. Three families of genuine findings (zero End copied from the parser's recovery; byte-based column arithmetic; the HCL scanner's token-local column count, recognised by lexing the file) are recorded in KNOWN_FINDINGS.json.",
   "Ranges the caller put into the schema (Targets.Range, DirectOrigin.TargetRange) and ranges produced by the caller's lens functions are exempt as the statement says; columns are only compared at grapheme boundaries."),
 "C03": ("exploration", "§4 C03", "deterministic simulation: differential execution under controlled map-iteration schedules and query histories",
   "Each query is executed under the canonical map order on a fresh decoder, then under 8 other map-order schedules (desc, rotate, shuffle, pin), after a sequence of other queries on a long-lived decoder, and again on a fresh decoder; canonical results (element order kept, diagnostics as multisets) must be identical. The map-order seam turns 'some runtime order breaks it' into a deterministic, replayable failure. Should the library call completion hooks from goroutines of its own, the stub hooks (which know the goroutine that issued the query) hold one hook back until the other returned, in the order the query's policy names, so that finishing order is a simulator decision as well (inert on the library as it stands).",
   "Map ranges inside hcl/v2, go-cty and the standard library keep the runtime's order (they sort where it matters); only hcl-lang's range-over-map sites are scheduled."),
 "C04": ("exploration", "§4 C04", "deterministic simulation: query histories under faults with a deep structural snapshot oracle",
   "A reflection snapshot (unexported fields, pointer-aliasing shape, func values by symbol, package-level variables) of every PathContext, the DecoderContext and the library's package variables is compared across a long history of queries on one decoder - including error-returning queries under reader/hook faults, the limit knob and prefill - after every 16th query (every query when replaying), and the parsed syntax trees at the end of each check.",
   "Writes that store the value already present are invisible to a snapshot (they are C05's race oracle's business); spare slice capacity is not part of the snapshot."),
 "C05": ("exploration", "§4 C05", "deterministic simulation: cooperative scheduler over real goroutines with the race detector as oracle (hand-off synchronisation hidden), result and snapshot comparison",
   "Rounds of 2-16 tasks issue mixed queries on decoders sharing one reader/context/schema; tasks run one at a time and are pre-empted at instrumented tick points chosen by the scenario. The simulator is built with -race and all synchronisation events inside tasks are ignored, so any conflicting access by two tasks is reported whatever interleaving was picked, in a fresh process per scenario so that detection does not depend on what ran before; results must equal the same query run alone; shared roots must be unchanged after the round.",
   "Inherits the race detector's bounded per-word history (4 cells per 8 bytes): a conflict can be evicted by unrelated accesses to the same word; reports whose both stacks end in the standard library's pooled objects (fmt, regexp) are artefacts of ignoring sync.Pool and are filtered."),
 "C06": ("exploration", "§4 C06", "deterministic simulation: states + limit knob + hook faults; per-candidate contract monitor and differential truncation oracle",
   "CompletionAtPos at the visited offsets of quiescent states, prefill on and off, limit knob in {1,2,3,7,100}: every candidate's edit must name the requested file, be well formed, start at or before the cursor and reach it (blanks aside), plain text without tab stops, snippet with consecutive stops each at most once; len<=limit; a list marked complete must not grow when the limit is lifted (differential run) and must not belong to a top-level attribute with a registered hook.",
   "The limit knob sets the unexported maxCandidates by reflection (skipped if the field disappears); 'no hook may add more' is decided only for top-level attributes of cleanly parsed generated files."),
 "C07": ("exploration", "§4 C07 / §12.2", "deterministic simulation supplying states and accept-candidate edit events; exact comparison with an independent effective-schema model",
   "On generated configurations (cleanly parsed, indexer caught up) the candidate labels at cursors in body white space, inside attribute names / block types (typed prefix) and inside completable labels are compared exactly with the model of the effective schema (static body overlaid with the dependent body selected by labels / attribute values / defaults / references / second level, extensions, maxima, declared attributes), under varying map order; a sample of candidates is then accepted as an edit event and validation must not report the inserted item.",
   "The model says nothing (may) where the statement is silent: key attributes written as non-literal expressions, half-resolved second level, content of dynamic blocks, attribute/block name clashes, whether 'dynamic' is offered when no block type exists."),
 "C08": ("exploration", "§4 C08 / §12.2", "deterministic simulation supplying states, collected target sets and accept-candidate edit events; soundness predicates and round trip through go-to-definition",
   "At cursors inside attribute values: every reference candidate is the address of a collected declaration, starts with the typed text, uses a block-local address only inside its block (self.* only where enabled), is not the attribute being edited and - in direct values, and in the empty argument slot behind the last argument of a multi-line call of a known function (there: the next parameter's type) - fits the constraint in force; function candidates are known functions with the prefix; keyword/boolean candidates are admitted by the constraint; accepting a fitting reference candidate (edit event, re-collection) must resolve to the declaration.",
   "Type/scope fit and keyword/boolean admission are only decided where the cursor is in the attribute's direct value or in such an argument slot (inside operators, index keys and written arguments other types are expected); the target set is the library's own collection (C09 checks that)."),
 "C09": ("exploration", "§4 C09 / §12.2", "deterministic simulation (map-order schedules) over generated configurations; structural invariants plus exactness of block/attribute targets against the generator's ground truth",
   "CollectReferenceTargets under varying map order: nested targets extend the parent's address by exactly one step, list indexes follow source order, elements of written values lie inside the value and an attribute step of such an element is a name a reference could write (any other key is an index step); every written block/attribute the effective schema marks addressable has a target with the address built from its steps, its own extent as range and its header/name as definition range; every top-level target belongs to such a declaration (nothing for unknown items).",
   "Types of inferred bodies and the representative range of multi-block collection targets are not compared; addresses without steps or with empty steps, keyword/literal-value/type-declaration attributes and traversals declared by address-carrying reference constraints are left open."),
 "C10": ("exploration", "§4 C10 / §12.2", "deterministic simulation (map-order schedules) over generated expressions; Must/May origin model",
   "The origin model walks every generated expression under the constraint of its attribute in the effective schema (any-expression with type-aware operators and function parameters, reference, collections, objects, one-of as union) and lists the origins the statement requires and the spans it leaves open; CollectReferenceOrigins must contain each required origin exactly once, nothing outside Must/May, ordered by file and position, under three map orders.",
   "for-expressions, conditionals, unknown functions, literal index keys and type-incorrect operations are 'may'; iterator variables are not references."),
 "C11": ("exploration", "§4 C11 / §12.2", "deterministic simulation: multi-path worlds, stale target/origin sets from delayed indexer jobs, reader faults; inverse relation over the recorded lookups",
   "For every collected origin (fresh or stale sets, reader faults on other paths held constant over the pair of calls, cloned paths with identical offsets, two language ids serving one directory, permuted Paths() and permuted stored-origin order): every declaration go-to-definition reports with a definition range must report the origin back when find-references is asked there, and conversely every origin find-references reports must resolve back to the declarations asked about and must exist in the stored set of the path it names; count/each/self resolve only inside their own block and file; origins pointing into another path resolve in that path (directory and language id) only and never in a path that cannot be read.",
   "Exactness of address/type matching against an independent match model is not claimed; lookups under stale sets are skipped when the recomputed position falls outside the stored definition lines."),
 "C15": ("exploration", "§4 C15 / §12.2", "deterministic simulation (map-order schedules, permuted validators) over generated violations; diagnostic model compared as a multiset",
   "The diagnostic model lists, from the generated configuration and the effective schema of every body, the unexpected attributes/blocks (none below a block whose dependent body was not resolved), missing required attributes, surplus/missing labels, too many/too few blocks (dynamic blocks satisfy minima) and deprecations; ValidateFile and Validate must return exactly that multiset of (severity, summary, subject).",
   "Subjects of body-level diagnostics are compared by innermost body (the parser's body range of one-line blocks starts at the first item); blocks with non-literal key expressions and the content of dynamic blocks are left out on both sides."),
 "C16": ("exploration", "§4 C16 / §12.2", "deterministic simulation: permutations of key listings under map-order schedules (canonicity, injectivity) and cross-feature agreement against the selection model",
   "NewSchemaKey must be equal for every permutation of a key set's listing (all dependent bodies of the generated schema plus generated and look-alike key sets: literal vs reference of the same text, \"1\" vs 1, value under another name) and distinct for distinct sets; inside every written block with defined keys, hover on attributes and key labels, attribute-name tokens and document links must agree with the body the selection model picks (completion and validation are compared with the same model by C07 and C15).",
   "Targets/origins inside the selected body are covered by C09/C10 with the same model."),
 "C19": ("exploration", "§4 C19 / §12.2", "deterministic simulation: twin deployment rendered to HCL JSON from the same model, compared under map-order schedules",
   "For every path inside the fragment both syntaxes express, a twin store is built from the same model with the files rendered as HCL JSON (pretty or one line); absolute targets (address, type, scope, nesting), origins (addresses) and the schema-known outline of the two must agree.",
   "Left open: label counts differing from the schema, key attributes and address steps written as references, blocks inside any-attribute bodies, string literals where a reference is expected (legacy bare references); one recorded finding (quoted index keys inside JSON strings)."),
 "C12": ("exploration", "§4 C12", "deterministic simulation supplying states; per-offset hover invariant against the renderer's node table",
   "HoverAtPos at every offset of quiescent states: nothing/an error, or non-empty content with a range of the file that contains the cursor; on attribute names, block types and labels (positions known from the renderer of the generated configuration) the content names the element, carries the description the effective schema (model) gives it and no other element's, and the range is the whole attribute / the type keyword / the label. Inside an object value written under an object constraint: the key of a declared attribute names it; an item whose key is computed or undeclared is described by the object itself (its range).",
   "Containment is half-open (End > cursor). 'Innermost sub-expression' is modelled for object items only, elsewhere it is checked as containment; label descriptions are checked as 'own or a dependent body's'."),
 "C13": ("exploration", "§4 C13", "deterministic simulation: edit histories and stale reference sets; ordered/disjoint/non-empty/type-set invariant",
   "SemanticTokensInFile on every state of typing histories, single-token edits and staleness windows (targets/origins collected from an older text), under varying map order: tokens sorted by start, pairwise disjoint, non-empty, inside the file and of an advertised type.",
   "Exactness against a token model is not claimed by this check yet."),
 "C14": ("fault_enumeration", "§4 C14", "deterministic simulation with exhaustive enumeration of reader faults (all subsets of failing paths x both failure shapes x Paths() order) against an outline model",
   "SymbolsInFile is compared with an outline model computed from the hclsyntax tree directly (one symbol per attribute/block in source order, names, extents, tuple elements, literally keyed object items, child inside parent); Decoder.Symbols is run under every subset of failing paths (listed-but-unreadable and unlisted), under two Paths() orders and several query strings, and must return exactly the matching top-level symbols of the readable paths in Paths() order.",
   "Worlds have 1-4 paths, so the fault space (<=2*16*2 configurations) is enumerated completely per state; JSON files are covered by C19."),
 "C18": ("exploration", "§4 C18", "deterministic simulation: two-state history relation (translation edit, indexer catch-up) checked by mapping positions",
   "For insertion points between top-level items and inserted blank/comment lines (incl. multi-byte, indented), every query at every sampled offset is run on the original and on the translated buffer after the indexer caught up; the original results mapped through the shift of the edit must equal the new ones (errors by type).",
   "Insertion at byte 0 is replaced by the next insertion point (the root body range and the first item's range cannot be told apart by position); single-path worlds."),
}
NA = {
 "C17": "Copy() is a pure function of one value: no map-order dependence in its result, no reader, hook, interleaving, fault or history is involved, and half the statement quantifies over future struct fields (programs). Not a simulation target; its user-visible consequences are exercised under C01 (Copy panics) and C04/C05 (aliasing through which a query writes).",
 "C20": "SignatureAtPos is a pure function of (file bytes, position, function map): no map range, reader, hook or shared mutable state on its path; a half-typed call is an input, not a fault. Not a simulation target; it still runs as one of the queries under C01/C03/C05/C18.",
}
PENDING = "check not built yet in this session (planned per DESIGN.md §4); will be claimed once its oracle exists"
props = [json.loads(l)["id"] for l in open("/verif/properties.jsonl")]
checks = []
for pid in props:
    if pid in CLAIMED:
        level, ref, tech, text, note = CLAIMED[pid]
        checks.append({
            "property_id": pid,
            "quick_cmd": f"scripts/check.sh {pid} quick",
            "thorough_cmd": f"scripts/check.sh {pid} thorough",
            "evidence_file": f"/verif/evidence/{pid}.json",
            "replay_cmd_template": "scripts/check.sh replay {path}",
            "engine": "lssim",
            "level_claimed": {"category": level, "text": text, "design_ref": ref},
            "level_note": note,
            "technique": tech,
        })
na = []
for pid in props:
    if pid in CLAIMED: continue
    na.append({"property_id": pid, "reason": NA.get(pid, PENDING)})
m = {
 "version": 1,
 "setup_cmd": "scripts/setup.sh",
 "hooks": {
   "guard": "verif",
   "enable": "no hook is committed to /repo: every check copies /repo's working tree to a scratch directory, instruments it with tools/simrewrite (map-order seam simrt.MapSeq, simrt.Tick, package-variable registration in generated //go:build verif files) and builds the simulator against it with -tags verif",
   "baseline_off_cmd": "cd /repo && go test -vet=off -count=1 ./...",
   "source_commits": [],
   "add_only": True,
 },
 "engines": [{"name": "lssim", "path": "/verif/sim", "serves_properties": sorted(CLAIMED), "kind_free_text": "deterministic simulator: stub language server hosting the real hcl-lang, seeded scenario generator, map-order scheduler, cooperative task scheduler with race oracle, fault-injecting PathReader/hooks/jobs, scenario replay and delta-debugging minimiser"}],
 "checks": checks,
 "not_applicable": na,
 "notes": "exit 0 = held on everything explored; exit 1 + 'VIOLATION property=<id> replay=<path>'; exit 2 = infrastructure trouble (never a VIOLATION line). KNOWN_FINDINGS.json lists recorded findings (printed as KNOWN-FINDING, exit 0) and fixed entries.",
}
json.dump(m, open("/verif/MANIFEST.json", "w"), indent=1)
print("MANIFEST.json:", len(checks), "checks,", len(na), "not applicable")
