#!/usr/bin/env python3
"""seeded_meta.py <matrix.log> [extra.log ...] : fill seeded/*/meta.json from the logs of
`seeded.sh run` (sections start with "== seeded/<ID>-k"): which check was run, its exit
code and the fingerprints it reported; `needs` is taken from the notes."""
import sys, os, re, json, glob

runs = {}
for log in sys.argv[1:]:
    cur = None
    for line in open(log, errors="replace"):
        m = re.match(r"== (seeded/\S+)", line)
        if m:
            cur = os.path.basename(m.group(1).rstrip("/"))
            continue
        if cur is None:
            continue
        m = re.match(r"check (\S+) (\S+) exit=(\d+) (\d+) violation", line)
        if m:
            runs.setdefault(cur, []).append({"check": m.group(1), "tier": m.group(2), "exit": int(m.group(3)), "violations": int(m.group(4)), "fingerprints": []})
            continue
        m = re.match(r"\s+fingerprint: (.*)", line)
        if m and cur in runs:
            runs[cur][-1]["fingerprints"].append(m.group(1).strip())

for d in sorted(glob.glob("/verif/seeded/*/")):
    name = os.path.basename(d.rstrip("/"))
    mp = d + "meta.json"
    meta = json.load(open(mp))
    notes = open(d + "notes.md").read() if os.path.exists(d + "notes.md") else ""
    paras = [p.strip() for p in re.split(r"\n\s*\n", notes) if p.strip()]
    need = [p for p in paras if re.search(r"(?i)\b(needed to|needs|what it takes|what is needed|to manifest|to show up|requires)\b", p)]
    title = notes.strip().split("\n")[0].lstrip("# ").strip() if notes.strip() else ""
    meta["what"] = title[:300]
    if need:
        meta["needs"] = re.sub(r"\s+", " ", need[0])[:900]
    meta["confirmed"] = {
        "cmd": f"scripts/seeded.sh verify seeded/{name}",
        "what": "scratch git worktree of /repo at HEAD: demo passes without the change, change applies and compiles, demo fails with it, the repository's whole test suite passes with it",
        "result": "CONFIRMED",
    }
    if name in runs:
        meta["checks_run"] = [{"cmd": f"scripts/seeded.sh run seeded/{name} {r['tier']} {r['check']}", **r} for r in runs[name]]
        own = [r for r in runs[name] if r["check"] == meta["property"]]
        meta["caught_by_own_check"] = any(r["exit"] == 1 for r in own)
        meta["caught_by"] = sorted({r["check"] for r in runs[name] if r["exit"] == 1})
    json.dump(meta, open(mp, "w"), indent=1)
    print(name, meta.get("caught_by"))
