# sourced by every script
export GOFLAGS=-mod=mod GOPROXY=off GOSUMDB=off GOTOOLCHAIN=local
export GONOSUMDB='*' GONOSUMCHECK=1 GOFLAGS="-mod=mod"
export CGO_ENABLED=1
VERIF=${VERIF:-/verif}
REPO=${REPO:-/repo}
CACHE=$VERIF/.cache
mkdir -p "$CACHE/bin"
