#!/bin/bash
# seeded.sh verify <seeded-dir>          : confirm the seeded change in a scratch worktree (suite passes with it, demo fails with it, demo passes without)
# seeded.sh run <seeded-dir> <tier> [property ids...] : apply the change to /repo, run the checks (default: the property it breaks), undo it
set -uo pipefail
. "$(dirname "$0")/env.sh"
CMD=$1; D=$(realpath "$2"); shift 2
PROP=$(python3 -c "import json;print(json.load(open('$D/meta.json'))['property'])")
DEMOPKG=$(python3 -c "import json;print(json.load(open('$D/meta.json')).get('demo_dir','decoder'))")
case "$CMD" in
verify)
  W=$(mktemp -d /tmp/seeded-verify.XXXXXX); rmdir "$W"
  git -C "$REPO" worktree add -q --detach "$W" HEAD || exit 2
  trap 'git -C "$REPO" worktree remove --force "$W" >/dev/null 2>&1; rm -rf "$W"' EXIT
  cd "$W"
  cp "$D/demo_test.go" "$W/$DEMOPKG/zz_seeded_demo_test.go"
  RUN=$(grep -o '^func Test[A-Za-z0-9_]*' "$D/demo_test.go" | sed 's/func //' | paste -sd'|')
  go test -vet=off -count=1 -run "^($RUN)\$" "./$DEMOPKG/" >"$W/.demo_clean.log" 2>&1; CLEAN=$?
  git apply "$D/patch.diff" || { echo "patch does not apply"; exit 2; }
  go build ./... || { echo "does not compile"; exit 1; }
  go test -vet=off -count=1 -run "^($RUN)\$" "./$DEMOPKG/" >"$W/.demo_mut.log" 2>&1; MUT=$?
  rm "$W/$DEMOPKG/zz_seeded_demo_test.go"
  go test -vet=off -count=1 ./... >"$W/.suite.log" 2>&1; SUITE=$?
  echo "demo_without_change_exit=$CLEAN demo_with_change_exit=$MUT suite_with_change_exit=$SUITE"
  [ $CLEAN -eq 0 ] && [ $MUT -ne 0 ] && [ $SUITE -eq 0 ] && { echo "CONFIRMED"; exit 0; }
  tail -5 "$W/.demo_clean.log" "$W/.suite.log" 2>/dev/null | head -30
  echo "NOT CONFIRMED"; exit 1
  ;;
run)
  TIER=${1:-quick}; shift || true
  PROPS=${*:-$PROP}
  [ -z "$(git -C "$REPO" status --porcelain)" ] || { echo "/repo not clean"; exit 2; }
  git -C "$REPO" apply "$D/patch.diff" || exit 2
  trap 'git -C "$REPO" checkout -- . ; git -C "$REPO" clean -fdq' EXIT
  for P in $PROPS; do
    OUT=$(VERIF_EVIDENCE_DIR=/tmp/seeded-out/evidence VERIF_REPLAYS_DIR=/tmp/seeded-out/replays/$(basename "$D") "$VERIF/scripts/check.sh" "$P" "$TIER" 2>&1); RC=$?
    echo "check $P $TIER exit=$RC $(echo "$OUT" | grep -c '^VIOLATION') violation(s)"
    echo "$OUT" | grep -A1 '^VIOLATION' | grep 'fingerprint' | head -5
  done
  ;;
esac
