#!/usr/bin/env python3
"""seeded_table.py : markdown table of seeded/*/meta.json for DESIGN.md §7"""
import json, glob, os, re
rows = []
for mp in sorted(glob.glob("/verif/seeded/*/meta.json")):
    m = json.load(open(mp))
    name = os.path.basename(os.path.dirname(mp))
    what = re.sub(r"^(C\d+\s+)?([Mm]utant|[Cc]hange)\s*\d+\s*[:\-–—]\s*", "", m.get("what", "")).strip()
    what = what.replace("|", "/")
    runs = m.get("checks_run", [])
    caught = []
    for r in runs:
        if r["exit"] == 1:
            fps = sorted({" / ".join(x for x in f.split("|")[1:4] if x) for f in r["fingerprints"]})
            caught.append(f"{r['check']} ({'; '.join(fps)[:90]})")
    missed = [r["check"] for r in runs if r["exit"] != 1]
    c = ", ".join(caught) if caught else "—"
    if missed:
        c += " · not by " + ", ".join(missed)
    rows.append(f"| {name} | {', '.join(m['files_changed'])[:60]} | {what[:150]} | {c} |")
print("| change | file(s) | what it does | caught at quick tier by (clause; site) |")
print("|---|---|---|---|")
print("\n".join(rows))
