#!/bin/bash
# build.sh [race]: build (or reuse) the instrumented simulator for /repo's current working tree.
# Prints the directory holding `lssim` and `sites.json`. Exit 2 on build trouble.
set -uo pipefail
. "$(dirname "$0")/env.sh"
MODE=${1:-plain}
[ -x "$CACHE/bin/simrewrite" ] || (cd "$VERIF/tools/simrewrite" && go build -o "$CACHE/bin/simrewrite" .) || { echo "build.sh: cannot build simrewrite" >&2; exit 2; }
HASH=$( { cd "$REPO" && find . -path ./.git -prune -o \( -name '*.go' -o -name go.mod -o -name go.sum \) -type f -print0 | sort -z | xargs -0 sha256sum; \
          cd "$VERIF" && find sim tools scripts -type f \( -name '*.go' -o -name go.mod -o -name '*.sh' \) -print0 | sort -z | xargs -0 sha256sum; echo "$MODE"; go version; } | sha256sum | cut -c1-20)
OUT="$CACHE/build/$HASH"
if [ -x "$OUT/lssim" ] && [ -f "$OUT/sites.json" ]; then echo "$OUT"; exit 0; fi
mkdir -p "$CACHE/build"
exec 9>"$CACHE/build/.lock"
flock 9
if [ -x "$OUT/lssim" ] && [ -f "$OUT/sites.json" ]; then echo "$OUT"; exit 0; fi
S=$(mktemp -d "${TMPDIR:-/tmp}/lssim-build.XXXXXX")
trap 'rm -rf "$S"' EXIT
"$VERIF/scripts/instrument.sh" "$S" >"$S/instrument.log" 2>&1 || { cat "$S/instrument.log" >&2; echo "build.sh: instrumentation failed" >&2; exit 2; }
sed -e "s#=> /repo#=> $S/hcl-lang#" -e "s#=> ./simrt#=> $S/simrt#" "$VERIF/sim/go.mod" > "$S/lssim.mod"
cp "$VERIF/sim/go.sum" "$S/lssim.sum"
FLAGS=(-tags verif -trimpath)
[ "$MODE" = race ] && FLAGS+=(-race)
mkdir -p "$OUT.tmp"
( cd "$VERIF/sim" && go build -modfile="$S/lssim.mod" "${FLAGS[@]}" -o "$OUT.tmp/lssim" ./cmd/lssim ) >"$S/build.log" 2>&1 || { cat "$S/build.log" >&2; rm -rf "$OUT.tmp"; echo "build.sh: build failed" >&2; exit 2; }
cp "$S/sites.json" "$OUT.tmp/sites.json"
rm -rf "$OUT"; mv "$OUT.tmp" "$OUT"
# keep the twelve most recent builds (a run in progress must not lose its binary
# to builds made by other runs meanwhile)
ls -1dt "$CACHE"/build/*/ 2>/dev/null | tail -n +13 | xargs -r rm -rf
echo "$OUT"
