#!/bin/bash
# instrument.sh <scratch-dir>: copy /repo's working tree to <scratch>/hcl-lang and instrument it.
set -euo pipefail
. "$(dirname "$0")/env.sh"
S=$1
mkdir -p "$S"
rsync -a --delete --exclude .git "$REPO/" "$S/hcl-lang/"
cp -r "$VERIF/sim/simrt" "$S/simrt"
cd "$S/hcl-lang"
# language version for range-over-func; require + replace simrt
sed -i -E 's/^go 1\.[0-9]+(\.[0-9]+)?$/go 1.23/' go.mod
printf '\nrequire simrt v0.0.0\n\nreplace simrt => ../simrt\n' >> go.mod
"$CACHE/bin/simrewrite" -dir "$S/hcl-lang" -sites "$S/sites.json" -ticks -vars ./decoder/... ./schema/... ./lang/... ./reference/... ./validator/... ./schemacontext/...
