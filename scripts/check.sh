#!/bin/bash
# check.sh <property-id> <quick|thorough>   |   check.sh replay <scenario.json>
# exit 0: property held on everything explored; 1: VIOLATION printed; 2: infrastructure trouble.
set -uo pipefail
. "$(dirname "$0")/env.sh"
ID=${1:?property id}; TIER=${2:-${VERIF_TIER:-quick}}
SEED=${VERIF_SEED:-1}
MODE=plain
case "$ID" in C05) MODE=race;; esac
if [ "$ID" = replay ]; then
  F=$2
  P=$(python3 -c "import json,sys;print(json.load(open(sys.argv[1]))['property'])" "$F") || exit 2
  [ "$P" = C05 ] && MODE=race
  B=$("$VERIF/scripts/build.sh" $MODE) || exit 2
  exec "$B/lssim" replay "$F"
fi
B=$("$VERIF/scripts/build.sh" $MODE) || exit 2
RACE=(); [ $MODE = race ] && RACE=(-race)
exec "$B/lssim" run -property "$ID" -tier "$TIER" -seed "$SEED" -workers "${VERIF_WORKERS:-16}" \
  -evidence "${VERIF_EVIDENCE_DIR:-$VERIF/evidence}/$ID.json" -replays "${VERIF_REPLAYS_DIR:-$VERIF/replays}" -known "$VERIF/KNOWN_FINDINGS.json" -sites "$B/sites.json" "${RACE[@]}"
