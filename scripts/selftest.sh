#!/bin/bash
# selftest.sh [n-per-property]: determinism of the simulator - the same seeds in 30 processes at GOMAXPROCS 1/4/16
# must produce byte-identical (generation hash, event-log hash) lines.
set -uo pipefail
. "$(dirname "$0")/env.sh"
N=${1:-2}
B=$("$VERIF/scripts/build.sh" plain) || exit 2
PROPS=$("$B/lssim" properties | tr ' ' ',')
D=$(mktemp -d); trap 'rm -rf "$D"' EXIT
i=0
for g in 1 4 16; do for k in 1 2 3 4 5 6 7 8 9 10; do
  i=$((i+1)); ( GOMAXPROCS=$g "$B/lssim" selftest -properties "${PROPS}" -n "$N" -seed "${VERIF_SEED:-1}" | grep -v '^C05 ' > "$D/out.$i" ) &
  [ $((i % 10)) -eq 0 ] && wait
done; done; wait
REF="$D/out.1"; BAD=0
for f in "$D"/out.*; do cmp -s "$REF" "$f" || { BAD=1; diff "$REF" "$f" | head -5; }; done
grep -q NONDETERMINISTIC "$REF" && BAD=1
echo "selftest: $(wc -l < "$REF") scenario lines x 30 processes (GOMAXPROCS 1/4/16): $([ $BAD -eq 0 ] && echo identical || echo DIFFERENT)"
exit $BAD
