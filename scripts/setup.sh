#!/bin/bash
# setup_cmd: build the instrumenter, lint the harness for map-order dependence, build the simulator, smoke test.
set -euo pipefail
. "$(dirname "$0")/env.sh"
cd "$VERIF/tools/simrewrite" && go build -o "$CACHE/bin/simrewrite" .
# the harness must not depend on Go's map order: every range over a map in it must be marked
cd "$VERIF/sim" && "$CACHE/bin/simrewrite" -lint -dir "$VERIF/sim" ./deep/... ./world/... ./harness/... ./oracle/... ./scen/... ./cmd/... 
B=$("$VERIF/scripts/build.sh" plain)
"$B/lssim" selftest -n 1 >/dev/null
echo "setup ok: $B"
